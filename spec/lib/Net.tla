--------------------------------- MODULE Net ---------------------------------
(* Nets as connected components: partition of a node set induced by an edge set. *)
EXTENDS Integers, Sequences, FiniteSets, TLC

(* merge classes edge by edge; P is a set of disjoint node sets covering every edge endpoint *)
RECURSIVE MergeAll(_, _)
MergeAll(P, es) ==
  IF es = {} THEN P ELSE
  LET e == CHOOSE x \in es : TRUE
      A == CHOOSE c \in P : e[1] \in c
      B == CHOOSE c \in P : e[2] \in c
  IN MergeAll((P \ {A, B}) \cup {A \cup B}, es \ {e})

(* partition of `obs` (observable nodes) by connectivity through `edges` (which may pass through
   non-observable nodes) *)
ObsPartition(edges, obs) ==
  LET nodes == obs \cup {e[1] : e \in edges} \cup {e[2] : e \in edges}
      P == MergeAll({{n} : n \in nodes}, edges)
  IN {c \cap obs : c \in P} \ {{}}
=============================================================================
