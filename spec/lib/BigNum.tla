------------------------------- MODULE BigNum -------------------------------
(***************************************************************************)
(* Exact decimal arithmetic for TLC (whose integers are 32 bit).           *)
(*                                                                         *)
(* A magnitude is a sequence of decimal digits, least significant first,   *)
(* without leading (i.e. trailing-in-the-sequence) zeros; <<>> is zero.    *)
(* A decimal number is  [neg |-> BOOLEAN, d |-> magnitude, e |-> Int]      *)
(* denoting  (-1)^neg * d * 10^e.  Canon strips low-order zeros so that    *)
(* equal values have equal representations (zero = [FALSE, <<>>, 0]).      *)
(***************************************************************************)
EXTENDS Integers, Sequences

Dig(s, k) == IF k <= Len(s) THEN s[k] ELSE 0
Max(a, b) == IF a > b THEN a ELSE b
Min(a, b) == IF a < b THEN a ELSE b

RECURSIVE Trim(_)
Trim(s) == IF Len(s) > 0 /\ s[Len(s)] = 0 THEN Trim(SubSeq(s, 1, Len(s) - 1)) ELSE s

Zeros(n) == [j \in 1..n |-> 0]
ShiftUp(s, n) == IF s = <<>> THEN <<>> ELSE Zeros(n) \o s          \* s * 10^n, n >= 0

RECURSIVE CmpK(_, _, _)
CmpK(a, b, k) == IF k = 0 THEN 0 ELSE IF a[k] # b[k] THEN (IF a[k] < b[k] THEN -1 ELSE 1) ELSE CmpK(a, b, k - 1)
CmpMag(a, b) == IF Len(a) # Len(b) THEN (IF Len(a) < Len(b) THEN -1 ELSE 1) ELSE CmpK(a, b, Len(a))   \* trimmed inputs

RECURSIVE AddC(_, _, _, _, _)
AddC(a, b, k, c, acc) ==
  IF k > Max(Len(a), Len(b)) THEN (IF c > 0 THEN Append(acc, c) ELSE acc)
  ELSE LET t == Dig(a, k) + Dig(b, k) + c IN AddC(a, b, k + 1, t \div 10, Append(acc, t % 10))
AddMag(a, b) == Trim(AddC(a, b, 1, 0, <<>>))

RECURSIVE SubC(_, _, _, _, _)      \* a >= b
SubC(a, b, k, br, acc) ==
  IF k > Len(a) THEN acc
  ELSE LET t == a[k] - Dig(b, k) - br IN
       IF t < 0 THEN SubC(a, b, k + 1, 1, Append(acc, t + 10)) ELSE SubC(a, b, k + 1, 0, Append(acc, t))
SubMag(a, b) == Trim(SubC(a, b, 1, 0, <<>>))

RECURSIVE MulD(_, _, _, _, _)      \* a * single digit d
MulD(a, d, k, c, acc) ==
  IF k > Len(a) THEN (IF c > 0 THEN Append(acc, c) ELSE acc)
  ELSE LET t == a[k] * d + c IN MulD(a, d, k + 1, t \div 10, Append(acc, t % 10))
RECURSIVE MulA(_, _, _, _)
MulA(a, b, k, acc) == IF k > Len(b) THEN acc
                      ELSE MulA(a, b, k + 1, IF b[k] = 0 THEN acc ELSE AddMag(acc, ShiftUp(Trim(MulD(a, b[k], 1, 0, <<>>)), k - 1)))
MulMag(a, b) == IF a = <<>> \/ b = <<>> THEN <<>> ELSE Trim(MulA(a, b, 1, <<>>))

(* ---------------- signed decimals ---------------- *)
Zero == [neg |-> FALSE, d |-> <<>>, e |-> 0]
RECURSIVE LowZeros(_, _)
LowZeros(s, k) == IF k <= Len(s) /\ s[k] = 0 THEN LowZeros(s, k + 1) ELSE k - 1
Canon(x) ==
  LET t == Trim(x.d) IN
  IF t = <<>> THEN Zero
  ELSE LET z == LowZeros(t, 1) IN [neg |-> x.neg, d |-> SubSeq(t, z + 1, Len(t)), e |-> x.e + z]

(* align two decimals to the smaller exponent *)
AtExp(x, e) == ShiftUp(Trim(x.d), x.e - e)         \* requires e <= x.e
Neg(x) == IF Trim(x.d) = <<>> THEN Zero ELSE [x EXCEPT !.neg = ~x.neg]
Abs(x) == [x EXCEPT !.neg = FALSE]

Add(x, y) ==
  LET e == Min(x.e, y.e)  a == AtExp(x, e)  b == AtExp(y, e) IN
  IF x.neg = y.neg THEN Canon([neg |-> x.neg, d |-> AddMag(a, b), e |-> e])
  ELSE LET c == CmpMag(a, b) IN
       IF c = 0 THEN Zero
       ELSE IF c > 0 THEN Canon([neg |-> x.neg, d |-> SubMag(a, b), e |-> e])
       ELSE Canon([neg |-> y.neg, d |-> SubMag(b, a), e |-> e])
Sub(x, y) == Add(x, Neg(y))
Mul(x, y) == Canon([neg |-> (x.neg # y.neg), d |-> MulMag(Trim(x.d), Trim(y.d)), e |-> x.e + y.e])
Scale10(x, k) == Canon([x EXCEPT !.e = @ + k])      \* x * 10^k

Sign(x) == IF Trim(x.d) = <<>> THEN 0 ELSE IF x.neg THEN -1 ELSE 1
Cmp(x, y) == Sign(Sub(x, y))                       \* -1, 0, 1
Eq(x, y) == Canon(x) = Canon(y)

(* integer part (truncation toward zero) *)
Trunc(x) ==
  LET c == Canon(x) IN
  IF c.e >= 0 THEN c
  ELSE IF -c.e >= Len(c.d) THEN Zero
  ELSE Canon([neg |-> c.neg, d |-> SubSeq(c.d, 1 - c.e, Len(c.d)), e |-> 0])
=============================================================================
