------------------------------- MODULE PySeq -------------------------------
(***************************************************************************)
(* Python sequence indexing and slicing, transcribed from the language     *)
(* reference (Data model: object.__getitem__, slice.indices; "Sequences"). *)
(* This module is the only statement of Python sequence semantics used by  *)
(* the verification: the harness never calls Python's own slicing.         *)
(*                                                                         *)
(* An index is a record                                                    *)
(*    [k |-> "int",   i |-> Int]                                           *)
(*    [k |-> "range", hs, s, he, e, ht, t]   hX = bound X is given (not    *)
(*                                           None); s/e/t start/stop/step  *)
(* Positions are 0-based; TLA+ sequences are 1-based, so position p of a   *)
(* sequence q is q[p + 1].                                                 *)
(***************************************************************************)
EXTENDS Integers, Sequences

IntInRange(n, i) == -n <= i /\ i < n
NormIndex(n, i)  == IF i < 0 THEN i + n ELSE i

(* slice.indices(n): clamp a given bound.  For a negative step the clamping range is [-1, n-1]. *)
Clamp(v, n, neg) == IF v < 0 THEN (IF v + n < 0 THEN (IF neg THEN -1 ELSE 0) ELSE v + n)
                    ELSE IF v >= n THEN (IF neg THEN n - 1 ELSE n) ELSE v

Step(idx)  == IF idx.ht THEN idx.t ELSE 1

(* the sequence of selected positions, in selection order; step must be non-zero *)
RangeIdx(n, idx) ==
  LET step  == Step(idx)
      neg   == step < 0
      start == IF idx.hs THEN Clamp(idx.s, n, neg) ELSE (IF neg THEN n - 1 ELSE 0)
      stop  == IF idx.he THEN Clamp(idx.e, n, neg) ELSE (IF neg THEN -1 ELSE n)
      len   == IF neg THEN (IF stop < start THEN (start - stop - 1) \div (-step) + 1 ELSE 0)
                      ELSE (IF start < stop THEN (stop - start - 1) \div step + 1 ELSE 0)
  IN [k \in 1..len |-> start + (k - 1) * step]

(* positions selected by any index (an out-of-range int and a zero step select nothing) *)
Positions(n, idx) ==
  IF idx.k = "int" THEN (IF IntInRange(n, idx.i) THEN <<NormIndex(n, idx.i)>> ELSE <<>>)
  ELSE IF Step(idx) = 0 THEN <<>> ELSE RangeIdx(n, idx)

Sel(seq, idx) == LET r == Positions(Len(seq), idx) IN [k \in 1..Len(r) |-> seq[r[k] + 1]]

(* classification used by C03 *)
BoundsWithin(n, idx) == /\ (idx.hs => (-n <= idx.s /\ idx.s <= n))
                        /\ (idx.he => (-n <= idx.e /\ idx.e <= n))
UnitStep(idx) == ~idx.ht \/ idx.t = 1

RECURSIVE Flat(_)
Flat(ss) == IF ss = <<>> THEN <<>> ELSE Head(ss) \o Flat(Tail(ss))
Rev(s) == [k \in 1..Len(s) |-> s[Len(s) - k + 1]]
=============================================================================
