------------------------------ MODULE ElabSched ------------------------------
(***************************************************************************)
(* The elaboration pass scheduler and its process-global caches, as        *)
(* ElabPass.elaborate / elaborate_module_base implement them               *)
(* (properties C02-sequencing, C07, C08).                                  *)
(*                                                                         *)
(* Constants                                                               *)
(*   Mods                  module names                                    *)
(*   Children[m]           sequence of the modules m instantiates, in      *)
(*                         traversal order                                 *)
(*   NP, CacheOf[i], Kind[i]   the pass list: which done/pending cache     *)
(*                         position i uses and whether the pass is a       *)
(*                         "check", a "rewrite" or the final "mark"        *)
(*   TopLists              the argument lists calls may be made with       *)
(*   MaxCalls, MayFail     bounds; MayFail enables FailAt                  *)
(* Variables                                                               *)
(*   done[c], pending[c]   per cache                                       *)
(*   applied[m]            sequence of pass positions applied to m         *)
(*   marked                modules whose _elaborated flag is set           *)
(*   call                  the active call: tops, position t in tops, pass *)
(*   stack                 frames [m, todo] of elaborate_module_base       *)
(*   outcome               none / running / returned / raised_*            *)
(* One action per decision point of elaborate_module_base: SkipDone,       *)
(* Circular, Enter, ApplyExit (elaborate_module + pending.remove +         *)
(* done.add), FailAt (an exception inside elaborate_module: the stack is   *)
(* abandoned and nothing is cleaned up - as implemented), NextPass.        *)
(***************************************************************************)
EXTENDS Integers, Sequences, FiniteSets, TLC

CONSTANTS Mods, Children, NP, CacheOf, Kind, TopLists, MaxCalls, MayFail

VARIABLES done, pending, failed, applied, marked, dirty, call, stack, ncalls, outcome, failedAt, sinceEdit
svars == <<done, pending, failed, applied, marked, dirty, call, stack, ncalls, outcome, failedAt, sinceEdit>>

Caches == {CacheOf[i] : i \in 1..NP}
Idle == [active |-> FALSE, tops |-> <<>>, t |-> 0, i |-> 0]

SInit == /\ done = [c \in Caches |-> {}] /\ pending = [c \in Caches |-> {}] /\ failed = [c \in Caches |-> {}] /\ dirty = {}
         /\ applied = [m \in Mods |-> <<>>] /\ marked = {}
         /\ call = Idle /\ stack = <<>> /\ ncalls = 0 /\ outcome = "none" /\ failedAt = <<>>
         /\ sinceEdit = [m \in Mods |-> {}]

(* Elaborator.elaborate: modules an earlier run left part-way (done in some pass, never marked) are still editable; before the first pass
   their `done` marks are dropped, so that they go through every pass - and every check - again *)
(* ... except those a pass failed on: they stay as they are and report that failure again when that pass is reached *)
Keep == marked \cup UNION {failed[c] : c \in Caches}
Call(tops) == /\ ~call.active /\ ncalls < MaxCalls
              /\ call' = [active |-> TRUE, tops |-> tops, t |-> 1, i |-> 1]
              /\ ncalls' = ncalls + 1 /\ outcome' = "running"
              /\ done' = [c \in Caches |-> done[c] \cap Keep]
              /\ applied' = [m \in Mods |-> IF m \in Keep THEN applied[m] ELSE <<>>]
              /\ UNCHANGED <<pending, failed, dirty, marked, stack, failedAt, sinceEdit>>
(* the designer edits a module that is not (yet) marked elaborated - between calls; enabled with MayFail (only a failed call leaves such modules
   behind with passes already applied), at most once per module *)
Edit(m) == /\ MayFail /\ ~call.active /\ m \notin marked /\ applied[m] # <<>> /\ sinceEdit[m] # {}
           /\ sinceEdit' = [sinceEdit EXCEPT ![m] = {}]
           /\ UNCHANGED <<done, pending, failed, applied, marked, dirty, call, stack, ncalls, outcome, failedAt>>

C == CacheOf[call.i]
Abort(why) == /\ call' = Idle /\ stack' = <<>> /\ outcome' = why

(* dispatch module m (a top, or the next child of the top frame); adv = bookkeeping that records the dispatch *)
(* an exception unwinds every open frame: each frame's module leaves `pending` and is remembered as failed *)
Frames == {stack[k].m : k \in 1..Len(stack)}
Unwind == /\ pending' = [pending EXCEPT ![C] = @ \ Frames]
          /\ failed' = [failed EXCEPT ![C] = @ \cup Frames]
Begin(m, adv(_)) ==
  IF m \in failed[C] THEN                                                                                        \* ReFail: the original failure again
       /\ Abort("raised_original") /\ Unwind /\ UNCHANGED <<done, dirty, applied, marked, ncalls, failedAt, sinceEdit>>
  ELSE IF m \in done[C] THEN adv(FALSE) /\ UNCHANGED <<done, pending, failed, dirty, applied, marked, ncalls, outcome, failedAt, sinceEdit>>   \* SkipDone
  ELSE IF m \in pending[C] THEN                                                                                  \* Circular
       /\ Abort("raised_circular") /\ Unwind /\ UNCHANGED <<done, dirty, applied, marked, ncalls, failedAt, sinceEdit>>
  ELSE /\ pending' = [pending EXCEPT ![C] = @ \cup {m}]                                                          \* Enter
       /\ adv(TRUE) /\ UNCHANGED <<done, failed, dirty, applied, marked, ncalls, outcome, failedAt, sinceEdit>>

VisitChild ==
  /\ call.active /\ stack # <<>> /\ stack[Len(stack)].todo # <<>>
  /\ LET f == stack[Len(stack)]  ch == Head(f.todo)
         popped == [stack EXCEPT ![Len(stack)].todo = Tail(f.todo)]
     IN Begin(ch, LAMBDA entered : /\ call' = call
                                   /\ stack' = IF entered THEN Append(popped, [m |-> ch, todo |-> Children[ch]]) ELSE popped)
VisitTop ==
  /\ call.active /\ stack = <<>> /\ call.t <= Len(call.tops)
  /\ LET m == call.tops[call.t]
     IN Begin(m, LAMBDA entered : /\ call' = [call EXCEPT !.t = @ + 1]
                                  /\ stack' = IF entered THEN <<[m |-> m, todo |-> Children[m]]>> ELSE stack)
ApplyExit ==
  /\ call.active /\ stack # <<>> /\ stack[Len(stack)].todo = <<>>
  /\ LET m == stack[Len(stack)].m IN
     /\ applied' = [applied EXCEPT ![m] = Append(@, call.i)]
     /\ marked' = IF Kind[call.i] = "mark" THEN marked \cup {m} ELSE marked
     /\ pending' = [pending EXCEPT ![C] = @ \ {m}]
     /\ done' = [done EXCEPT ![C] = @ \cup {m}]
     /\ stack' = SubSeq(stack, 1, Len(stack) - 1)
     /\ sinceEdit' = [sinceEdit EXCEPT ![m] = @ \cup {call.i}]
     /\ UNCHANGED <<call, failed, dirty, ncalls, outcome, failedAt>>
(* the pass raises while working on the top frame's module (a design error, or an exception in user code); a rewriting pass
   may have modified the module part-way (dirty) *)
FailAt ==
  /\ MayFail /\ call.active /\ stack # <<>> /\ stack[Len(stack)].todo = <<>>
  /\ failedAt' = <<call.i, stack[Len(stack)].m>>
  /\ dirty' = IF Kind[call.i] = "rewrite" THEN dirty \cup {stack[Len(stack)].m} ELSE dirty
  /\ Abort("raised_fault") /\ Unwind
  /\ UNCHANGED <<done, applied, marked, ncalls, sinceEdit>>
NextPass ==
  /\ call.active /\ stack = <<>> /\ call.t > Len(call.tops)
  /\ IF call.i < NP THEN call' = [call EXCEPT !.i = @ + 1, !.t = 1] /\ outcome' = outcome
     ELSE call' = Idle /\ outcome' = "returned"
  /\ UNCHANGED <<done, pending, failed, dirty, applied, marked, stack, ncalls, failedAt, sinceEdit>>

SNext == (\E tops \in TopLists : Call(tops)) \/ (\E m \in Mods : Edit(m)) \/ VisitChild \/ VisitTop \/ ApplyExit \/ FailAt \/ NextPass

(* ---------------- properties ---------------- *)
LastRewrite(s) == LET R == {k \in 1..Len(s) : Kind[s[k]] = "rewrite"} IN IF R = {} THEN 0 ELSE CHOOSE k \in R : \A j \in R : j <= k
(* C02: every marked module was checked after its last rewriting pass *)
CheckedAfterFlatten == \A m \in marked : \E k \in 1..Len(applied[m]) : Kind[applied[m][k]] = "check" /\ k > LastRewrite(applied[m])
(* C07: nothing skipped, nothing applied twice, in pass order; a returned call leaves its whole closure fully processed *)
AppliedInOrder == \A m \in Mods : \A k \in 1..Len(applied[m]) : applied[m][k] = k
RECURSIVE Closure(_, _)
Closure(ms, fuel) == IF fuel = 0 THEN ms ELSE Closure(ms \cup UNION {{Children[m][k] : k \in 1..Len(Children[m])} : m \in ms}, fuel - 1)
HistoryIndependent == (outcome = "returned") => \A m \in marked : Len(applied[m]) = NP
MarkedAreComplete == \A m \in marked : Len(applied[m]) = NP
(* (a module a pass failed on is frozen as it is, while its unfinished children start over at the next call: the order is required of live modules) *)
ChildrenFirst == \A m \in Mods \ UNION {failed[c] : c \in Caches} : \A k \in 1..Len(Children[m]) : Len(applied[Children[m][k]]) >= Len(applied[m])
(* C08: a finished call - returned or raised - leaves no pending entry behind *)
NoStalePending == ~call.active => \A c \in Caches : pending[c] = {}
(* C08: a module a rewriting pass failed on is never marked elaborated (hence never exported) *)
HalfRewrittenNeverMarked == marked \cap dirty = {}
(* C02 / C08: a module that is marked elaborated (and so exported) went through every checking pass AFTER the designer last edited it *)
EditsAreChecked == \A m \in marked : {i \in 1..NP : Kind[i] = "check"} \subseteq sinceEdit[m]
(* C08: failures never spread to modules that were not on the failing path *)
FailedOnlyOnFailingPath == \A c \in Caches : \A m \in failed[c] : failedAt # <<>>
=============================================================================
