-------------------------------- MODULE Repro --------------------------------
(***************************************************************************)
(* C12: the output of a design program must not depend on the environment  *)
(* (hash seed, allocation history, unrelated earlier work).                *)
(*                                                                         *)
(* The mechanism by which it could: elaboration passes iterate over sets   *)
(* of back-references (hashed by object address / (address, name)), so the *)
(* iteration ORDER is chosen by the environment.  The model below is the   *)
(* re-connection step of bundle flattening: every port reference in the    *)
(* back-reference set of a bundle instance is visited - in an order the    *)
(* environment picks - and the instance's connection list gets the old     *)
(* entry removed and the flattened entries appended.  `Sorted` models an   *)
(* implementation that orders the visits by (instance, port) first.        *)
(* Confluent: all environments end in the same state.                      *)
(***************************************************************************)
EXTENDS Integers, Sequences, FiniteSets, TLC
CONSTANTS Refs,        \* set of <<instance, port>> connected to one bundle instance
          Leaves,      \* flattened member names, in definition order
          Sorted       \* TRUE: visits are ordered by (instance, port) ; FALSE: the environment chooses
VARIABLES todo, conns, first
rvars == <<todo, conns, first>>
Insts == {r[1] : r \in Refs}
PortsOf(i) == {r[2] : r \in {x \in Refs : x[1] = i}}
(* instances and ports are numbered; every instance starts with its bundle ports connected in port order *)
OrderedSeq(S) == CHOOSE s \in [1..Cardinality(S) -> S] : (\A a, b \in 1..Cardinality(S) : a < b => s[a] < s[b])
Start == [i \in Insts |-> LET q == OrderedSeq(PortsOf(i)) IN [k \in 1..Len(q) |-> <<q[k], 0>>]]     \* entries <<port, 0>>: bundle-level; <<port, k>>: flattened member k
RInit == todo = Refs /\ conns = Start /\ first = <<>>
Less(a, b) == a[1] < b[1] \/ (a[1] = b[1] /\ a[2] < b[2])
Visit(r) ==
  /\ r \in todo
  /\ (Sorted => \A q \in todo : q = r \/ Less(r, q))
  /\ todo' = todo \ {r}
  /\ conns' = [conns EXCEPT ![r[1]] = SelectSeq(@, LAMBDA p : p # <<r[2], 0>>) \o [k \in 1..Len(Leaves) |-> <<r[2], k>>]]
  /\ first' = IF first = <<>> THEN r ELSE first
RNext == \E r \in Refs : Visit(r)
RSpec == RInit /\ [][RNext]_rvars
(* the canonical result: visits in sorted order *)
RECURSIVE Canon(_, _)
Canon(c, rs) == IF rs = {} THEN c ELSE
  LET r == CHOOSE x \in rs : \A q \in rs : q = x \/ Less(x, q) IN
  Canon([c EXCEPT ![r[1]] = SelectSeq(@, LAMBDA p : p # <<r[2], 0>>) \o [k \in 1..Len(Leaves) |-> <<r[2], k>>]], rs \ {r})
Confluent == todo = {} => conns = Canon(Start, Refs)
=============================================================================
