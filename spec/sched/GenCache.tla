------------------------------ MODULE GenCache ------------------------------
(***************************************************************************)
(* hdl21.generator.run and its process-global cache (properties C09, C08). *)
(*                                                                         *)
(* A call is <<g, c>>: generator g with a parameter value of equality      *)
(* class c (two spellings of equal parameters have the same class).        *)
(* Kind[g]:  "fresh" - the body builds a new module                        *)
(*           "nest"  - the body builds a new module that instantiates      *)
(*                     Callee[g] called with the same class                *)
(*           "pass"  - the body returns the module of Callee[g](same class)*)
(*           "rec"   - the body builds a module instantiating g(c-1), c>0  *)
(* State, as in the implementation:                                        *)
(*   done    : call -> module id          (Generator.Cache.done)           *)
(*   pending : set of calls               (Generator.Cache.pending)        *)
(*   stack   : sequence of frames [call, phase]                            *)
(*   name    : module id -> the call that named it  (Module.name)          *)
(*   runs    : call -> number of completed body executions                 *)
(* One action per step of run(): Hit, Miss (push + pending.add), the body  *)
(* (which may call other generators), BodyRaise, Finish (name, pop, store).*)
(***************************************************************************)
EXTENDS Integers, Sequences, FiniteSets, TLC

CONSTANTS Gens, Classes, Kind, Callee, MayRaise

VARIABLES done, pending, stack, name, runs, nmods, raised, result
gvars == <<done, pending, stack, name, runs, nmods, raised, result>>

Calls == Gens \X Classes
NoMod == 0

GInit == /\ done = [c \in {} |-> NoMod] /\ pending = {} /\ stack = <<>>
         /\ name = [m \in {} |-> <<>>] /\ runs = [c \in Calls |-> 0]
         /\ nmods = 0 /\ raised = FALSE /\ result = NoMod

Top == stack[Len(stack)]
Pop == SubSeq(stack, 1, Len(stack) - 1)
Ext(f, k, v) == [x \in DOMAIN f \cup {k} |-> IF x = k THEN v ELSE f[x]]

(* what the body of `call` needs before it can finish: the call it makes, if any *)
Needs(call) ==
  LET g == call[1]  c == call[2] IN
  CASE Kind[g] \in {"nest", "pass"} -> {<<Callee[g], c>>}
    [] Kind[g] = "rec" -> IF c > 0 THEN {<<g, c - 1>>} ELSE {}
    [] OTHER -> {}

(* enter run(call): cache hit returns at once, otherwise push and mark pending *)
Enter(call) ==
  IF call \in DOMAIN done
  THEN /\ result' = done[call]
       /\ UNCHANGED <<done, pending, stack, name, runs, nmods, raised>>
  ELSE IF call \in pending
  THEN /\ raised' = TRUE /\ stack' = <<>> /\ result' = NoMod     \* "circular dependency": every open call unwinds
       /\ pending' = pending \ {stack[k].call : k \in 1..Len(stack)}
       /\ UNCHANGED <<done, name, runs, nmods>>
  ELSE /\ stack' = Append(stack, [call |-> call, sub |-> NoMod])
       /\ pending' = pending \cup {call}
       /\ result' = NoMod
       /\ UNCHANGED <<done, name, runs, nmods, raised>>

CallTop(call) == stack = <<>> /\ ~raised /\ Enter(call)

(* the body of the top frame makes its nested call *)
BodyCall ==
  /\ stack # <<>> /\ ~raised
  /\ LET f == Top IN
     /\ f.sub = NoMod /\ Needs(f.call) # {}
     /\ LET sub == CHOOSE x \in Needs(f.call) : TRUE IN
        IF sub \in DOMAIN done
        THEN /\ stack' = [stack EXCEPT ![Len(stack)].sub = done[sub]]
             /\ UNCHANGED <<done, pending, name, runs, nmods, raised, result>>
        ELSE Enter(sub)

(* the body returns: a fresh module, or (pass) the callee's module; run() names it and stores it *)
Finish ==
  /\ stack # <<>> /\ ~raised
  /\ LET f == Top  g == f.call[1] IN
     /\ (Needs(f.call) = {} \/ f.sub # NoMod)
     /\ LET isnew == Kind[g] # "pass"
            m == IF isnew THEN nmods + 1 ELSE f.sub
        IN /\ nmods' = IF isnew THEN nmods + 1 ELSE nmods
           /\ name' = IF m \in DOMAIN name THEN name ELSE Ext(name, m, f.call)     \* named once, by the creating call
           /\ done' = Ext(done, f.call, m)
           /\ pending' = pending \ {f.call}
           /\ runs' = [runs EXCEPT ![f.call] = @ + 1]
           /\ stack' = IF Len(stack) = 1 THEN <<>> ELSE [Pop EXCEPT ![Len(stack) - 1].sub = m]
           /\ result' = IF Len(stack) = 1 THEN m ELSE result
           /\ raised' = raised

(* user code in a body raises: the exception unwinds every open call, each of which leaves `pending` so that it can be run again *)
BodyRaise ==
  /\ MayRaise /\ stack # <<>> /\ ~raised
  /\ raised' = TRUE /\ stack' = <<>> /\ result' = NoMod
  /\ pending' = pending \ {stack[k].call : k \in 1..Len(stack)}
  /\ UNCHANGED <<done, name, runs, nmods>>

(* the exception has propagated to the caller; the next top-level call may start *)
Recover == raised /\ raised' = FALSE /\ UNCHANGED <<done, pending, stack, name, runs, nmods, result>>

(* ---------------- properties ---------------- *)
Memo       == [][\A c \in DOMAIN done : c \in DOMAIN done' /\ done'[c] = done[c]]_gvars
RunOnce    == \A c \in Calls : runs[c] <= 1
Distinct   == \A c1, c2 \in DOMAIN done :
                (c1 # c2 /\ c1[1] = c2[1] /\ done[c1] = done[c2]) => Kind[c1[1]] = "pass" /\ FALSE
NameStable == [][\A m \in DOMAIN name : m \in DOMAIN name' /\ name'[m] = name[m]]_gvars
NameInjective == \A m1, m2 \in DOMAIN name : name[m1] = name[m2] => m1 = m2
NoStalePending == (stack = <<>>) => pending = {}
=============================================================================
