------------------------------ MODULE Trace_Sim ------------------------------
(* C17: one ndjson line per exported Sim (alone or as member of a list): abstract sim, whether its testbench meets the testbench
   interface (exactly one scalar port), and the projected SimInput (or raised). *)
EXTENDS SimExport, Json, IOUtils, TLC
T_ == ndJsonDeserialize(IOEnv.TRACE_FILE)
VARIABLE l
Clause(e) ==
  IF ~e.sim.tb_ok THEN (IF e.raised THEN "" ELSE "bad_testbench_accepted")
  ELSE IF e.raised THEN "rejected"
  ELSE SimDiff(e.sim, e.out)
Init == l = 1
Next == /\ l <= Len(T_)
        /\ LET e == T_[l]  c == Clause(e) IN PrintT(<<"VERDICT", e.tid, c = "", c>>)
        /\ l' = l + 1
Spec == Init /\ [][Next]_l
=============================================================================
