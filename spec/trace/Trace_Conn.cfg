SPECIFICATION Spec
