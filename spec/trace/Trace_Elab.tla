----------------------------- MODULE Trace_Elab -----------------------------
(* Validation of elaboration-hook traces against ElabSched (C07, C02 sequencing, C08).
   Lines:  ev = "call_begin" [tops, children (module -> sequence of child modules), np, cacheof, kindof]
           ev = "skip_done" | "circular" | "enter" | "apply_begin" | "apply_end" | "exit"  [pos, cache, mod, ndone, pending]
           ev = "call_end" [raised]
   The done / pending sets, the traversal stack and the per-module sequence of applied passes are replayed exactly as
   ElabSched's actions update them; every logged decision (skip / enter / circular), every logged |done| and pending set,
   the children-first traversal order and the monitors of ElabSched are checked at every step.  Verdicts are total. *)
EXTENDS Integers, Sequences, FiniteSets, TLC, Json, IOUtils
T_ == ndJsonDeserialize(IOEnv.TRACE_FILE)
VARIABLES l, st, tid, bad
tv == <<l, st, tid, bad>>
Range(f) == {f[x] : x \in DOMAIN f}
Get(f, c) == IF c \in DOMAIN f THEN f[c] ELSE {}
GetS(f, c) == IF c \in DOMAIN f THEN f[c] ELSE <<>>
Put(f, c, v) == [x \in DOMAIN f \cup {c} |-> IF x = c THEN v ELSE f[x]]
E0 == [x \in {} |-> {}]

S0 == [done |-> E0, pending |-> E0, failedm |-> E0, applied |-> E0, marked |-> {}, stack |-> <<>>, i |-> 0, t |-> 0, tops |-> <<>>,
       children |-> E0, np |-> 0, kindof |-> <<>>, active |-> FALSE, failed |-> FALSE, strict |-> TRUE]

(* advance over exhausted top lists: the pass position the next top-level dispatch belongs to *)
RECURSIVE Adv(_)
Adv(s) == IF s.stack = <<>> /\ s.t > Len(s.tops) /\ s.i < s.np THEN Adv([s EXCEPT !.i = @ + 1, !.t = 1]) ELSE s

LastRewrite(s, a) == LET R == {k \in 1..Len(a) : s.kindof[a[k]] = "rewrite"} IN IF R = {} THEN 0 ELSE CHOOSE k \in R : \A j \in R : j <= k
Checked(s, a) == \E k \in 1..Len(a) : s.kindof[a[k]] = "check" /\ k > LastRewrite(s, a)

(* step: returns [s, bad] *)
Step(s0, e) ==
  IF e.ev = "call_begin" THEN
     \* Elaborator.elaborate, before its first pass: modules that an earlier run left part-way (in some pass's `done`, never marked elaborated) are
     \* still editable; their `done` marks in the caches of this call's passes are dropped, so that they are elaborated - and checked - from the
     \* start again.  Nothing is dropped while another elaboration is in progress (something pending in one of those caches).
     LET cs == Range(e.caches)
         idle == \A c \in cs : Get(s0.pending, c) = {}
         unfinished == ((UNION {Get(s0.done, c) : c \in cs}) \ s0.marked) \ UNION {Get(s0.failedm, c) : c \in cs}   \* (not those a pass failed on)
         done1 == IF idle THEN [c \in DOMAIN s0.done |-> IF c \in cs THEN s0.done[c] \ unfinished ELSE s0.done[c]] ELSE s0.done
         applied1 == IF idle THEN [m \in DOMAIN s0.applied |-> IF m \in unfinished THEN <<>> ELSE s0.applied[m]] ELSE s0.applied
     IN
     [s |-> [s0 EXCEPT !.stack = <<>>, !.i = 1, !.t = 1, !.tops = e.tops, !.children = e.children, !.np = e.np, !.kindof = e.kindof,
                       !.active = TRUE, !.failed = FALSE, !.strict = e.strict, !.done = done1, !.applied = applied1],
      bad |-> IF s0.active THEN "nested_call" ELSE ""]
  ELSE IF e.ev = "call_end" THEN
     LET s == Adv(s0)
         stale == \E c \in DOMAIN s.pending : s.pending[c] # {}
     IN [s |-> [s EXCEPT !.active = FALSE, !.stack = <<>>, !.failed = e.raised],
         bad |-> IF e.raised THEN (IF stale THEN "stale_pending_after_failure" ELSE "")
                 ELSE IF s.stack # <<>> THEN "returned_with_open_frames"
                 ELSE IF ~(s.i = s.np /\ s.t > Len(s.tops)) THEN "returned_before_all_passes"
                 ELSE IF stale THEN "stale_pending_after_return" ELSE ""]
         \* after a failed call, too, nothing may stay pending (C08)
         
  ELSE
     \* (the module's own _elaborated flag is logged with every hook event: a module that carries it counts as marked, however it came by it)
     LET s    == LET a == Adv(s0) IN [a EXCEPT !.marked = IF e.elab THEN @ \cup {e.mod} ELSE @]
         top  == IF s.stack = <<>> THEN [m |-> "", todo |-> <<>>, applying |-> FALSE] ELSE s.stack[Len(s.stack)]
         free == top.applying                      \* inside elaborate_module (array flattening re-visits its targets)
         target == IF s.stack = <<>> THEN (IF s.t <= Len(s.tops) THEN s.tops[s.t] ELSE "")
                   ELSE IF top.todo # <<>> THEN Head(top.todo) ELSE ""
         c    == e.cache
         consumed == IF free THEN s
                     ELSE IF s.stack = <<>> THEN [s EXCEPT !.t = @ + 1]
                     ELSE IF top.todo = <<>> THEN s
                     ELSE [s EXCEPT !.stack[Len(s.stack)].todo = Tail(@)]
         pos_ok == e.pos = s.i
     IN CASE e.ev = "skip_done" ->
               [s |-> consumed,
                bad |-> IF ~pos_ok THEN "pass_position" ELSE IF ~free /\ target # e.mod THEN "traversal_order"
                        ELSE IF e.mod \notin Get(s.done, c) THEN "skipped_module_not_done" ELSE ""]
          [] e.ev = "circular" ->
               [s |-> consumed,
                bad |-> IF ~free /\ target # e.mod THEN "traversal_order"
                        ELSE IF e.mod \in Get(s.done, c) \/ e.mod \notin Get(s.pending, c) THEN "spurious_circular" ELSE ""]
          [] e.ev = "enter" ->
               LET p1 == Get(s.pending, c) \cup {e.mod}
                   s1 == [consumed EXCEPT !.pending = Put(s.pending, c, p1),
                                          !.stack = Append(consumed.stack, [m |-> e.mod, todo |-> GetS(s.children, e.mod), applying |-> FALSE])]
               IN [s |-> s1,
                   bad |-> IF ~pos_ok THEN "pass_position" ELSE IF ~free /\ target # e.mod THEN "traversal_order"
                           ELSE IF e.mod \in Get(s.done, c) THEN "entered_done_module"
                           ELSE IF e.mod \in Get(s.pending, c) THEN "entered_pending_module"
                           ELSE IF e.mod \in Get(s.failedm, c) THEN "entered_failed_module"
                           ELSE IF e.ndone # Cardinality(Get(s.done, c)) THEN "done_count"
                           ELSE IF Range(e.pending) # p1 THEN "pending_set" ELSE ""]
          [] e.ev = "refail" ->        \* a module whose elaboration failed earlier is visited again: the original failure is raised again
               [s |-> consumed,
                bad |-> IF ~free /\ target # e.mod THEN "traversal_order"
                        ELSE IF e.mod \notin Get(s.failedm, c) THEN "refail_of_module_that_did_not_fail" ELSE ""]
          [] e.ev = "fail" ->          \* the exception passes through the top frame: it leaves pending, is remembered as failed, and is popped
               [s |-> [s EXCEPT !.pending = Put(s.pending, c, Get(s.pending, c) \ {e.mod}),
                                !.failedm = Put(s.failedm, c, Get(s.failedm, c) \cup {e.mod}),
                                !.stack = IF s.stack = <<>> THEN <<>> ELSE SubSeq(s.stack, 1, Len(s.stack) - 1)],
                bad |-> IF s.stack = <<>> \/ top.m # e.mod THEN "fail_not_top_frame"
                        ELSE IF Range(e.pending) # Get(s.pending, c) \ {e.mod} THEN "pending_set_after_failure" ELSE ""]
          [] e.ev = "apply_begin" ->
               [s |-> IF s.stack = <<>> THEN s ELSE [s EXCEPT !.stack[Len(s.stack)].applying = TRUE],
                bad |-> IF s.stack = <<>> \/ top.m # e.mod THEN "apply_not_top_frame"
                        ELSE IF top.todo # <<>> THEN "applied_before_children" ELSE ""]
          [] e.ev = "apply_end" ->
               [s |-> IF s.stack = <<>> THEN s ELSE [s EXCEPT !.stack[Len(s.stack)].applying = FALSE],
                bad |-> IF s.stack = <<>> \/ top.m # e.mod \/ ~top.applying THEN "apply_end_mismatch" ELSE ""]
          [] e.ev = "exit" ->
               LET a1 == Append(GetS(s.applied, e.mod), e.pos)
                   ismark == s.kindof[e.pos] = "mark"
                   s1 == [s EXCEPT !.pending = Put(s.pending, c, Get(s.pending, c) \ {e.mod}),
                                   !.done = Put(s.done, c, Get(s.done, c) \cup {e.mod}),
                                   !.applied = Put(s.applied, e.mod, a1),
                                   !.marked = IF ismark THEN @ \cup {e.mod} ELSE @,
                                   !.stack = IF s.stack = <<>> THEN <<>> ELSE SubSeq(s.stack, 1, Len(s.stack) - 1)]
               IN [s |-> s1,
                   bad |-> IF s.stack = <<>> \/ top.m # e.mod THEN "exit_not_top_frame"
                           \* (strict: one fixed pass list throughout the trace; traces that switch elaborators skip the position monitors)
                           ELSE IF s.strict /\ a1[Len(a1)] # Len(a1) THEN "pass_skipped_or_repeated"       \* AppliedInOrder
                           ELSE IF ismark /\ ~e.elab THEN "mark_pass_left_module_unmarked"
                           ELSE IF s.strict /\ ismark /\ Len(a1) # s.np THEN "marked_incomplete"
                           ELSE IF s.strict /\ ismark /\ ~Checked(s, a1) THEN "not_checked_after_flattening"
                           ELSE IF \E k \in DOMAIN GetS(s.children, e.mod) : s.strict /\ Len(GetS(s.applied, s.children[e.mod][k])) < Len(a1) THEN "parent_before_child"
                           ELSE ""]
          [] OTHER -> [s |-> s, bad |-> "unknown_event"]

Init == l = 1 /\ st = S0 /\ tid = -1 /\ bad = ""
Next ==
  /\ l <= Len(T_)
  /\ LET e == T_[l]
         fresh == e.tid # tid
         s0 == IF fresh THEN S0 ELSE st
         b0 == IF fresh THEN "" ELSE bad
         r  == Step(s0, e)
         b1 == IF b0 # "" THEN b0 ELSE IF r.bad = "" THEN "" ELSE r.bad \o "@" \o ToString(e.seq)
         last == l = Len(T_) \/ T_[l + 1].tid # e.tid
     IN /\ st' = r.s /\ tid' = e.tid /\ bad' = b1 /\ l' = l + 1
        /\ (last => PrintT(<<"VERDICT", e.tid, b1 = "", b1>>))
Spec == Init /\ [][Next]_tv
=============================================================================
