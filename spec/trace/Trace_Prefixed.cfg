SPECIFICATION Spec
