SPECIFICATION Spec
