---------------------------- MODULE Trace_PdkReg ----------------------------
(* C15 (a): registry histories replayed on the real hdl21.pdk with three stand-in PDK modules; each line: the operation and what
   happened: "ok", "raise", or the name of the PDK whose compile() ran. *)
EXTENDS Pdk, Json, IOUtils
T_ == ndJsonDeserialize(IOEnv.TRACE_FILE)
VARIABLES l, st, tid, bad
Init == l = 1 /\ st = R0 /\ tid = -1 /\ bad = ""
Next ==
  /\ l <= Len(T_)
  /\ LET e == T_[l]
         fresh == e.tid # tid
         s0 == IF fresh THEN R0 ELSE st
         b0 == IF fresh THEN "" ELSE bad
         r  == RApply(s0, e)
         c  == IF e.res = r.res THEN "" ELSE e.op \o "_" \o e.how \o ":expected_" \o r.res \o "_got_" \o e.res
         b1 == IF b0 # "" THEN b0 ELSE IF c = "" THEN "" ELSE c \o "@" \o ToString(e.seq)
         last == l = Len(T_) \/ T_[l + 1].tid # e.tid
     IN /\ st' = r.st /\ tid' = e.tid /\ bad' = b1 /\ l' = l + 1
        /\ (last => PrintT(<<"VERDICT", e.tid, b1 = "", b1>>))
Spec == Init /\ [][Next]_<<l, st, tid, bad>>
=============================================================================
