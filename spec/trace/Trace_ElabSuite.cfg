SPECIFICATION Spec
