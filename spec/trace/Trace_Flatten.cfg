SPECIFICATION Spec
