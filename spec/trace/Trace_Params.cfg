SPECIFICATION Spec
