SPECIFICATION Spec
