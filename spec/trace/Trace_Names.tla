----------------------------- MODULE Trace_Names -----------------------------
(* C05: designs whose designer-chosen names coincide with the names elaboration invents.  Either the call raises, or the package
   (a) still denotes the design (C01's oracle; invented instance names are compared up to trailing underscores - the projector
       supplies P with every non-designer instance renamed to its base name, see e.renamed), and
   (b) keeps every designer object: each designer signal is still declared with its width, each designer instance is still there
       with its target. *)
EXTENDS Valid, Package, Json, IOUtils
T_ == ndJsonDeserialize(IOEnv.TRACE_FILE)
VARIABLE l

Kept(e) ==
  LET m  == e.D.mods[e.D.top]
      pm == e.P.mods[e.P.top]
  IN /\ \A s \in Range(m.sigs) : \E q \in PRange(pm.sigs) : q.n = s.n /\ q.w = s.w
     /\ \A i \in {x \in Range(m.insts) : x.kind = "inst"} :
           \E q \in PRange(pm.insts) : q.n = i.n /\ (i.of.k = "mod" \/ q.of.ref = i.of.ref)

Clause(e) ==
  IF Status(e.D) \notin {"valid", "lenient"} THEN "generator_made_invalid_design:" \o ToString(FaultClauses(e.D))
  ELSE IF e.raised THEN "ok_raised"
  ELSE IF PkgFaults(e.P) # {} THEN "package_malformed:" \o ToString(PkgFaults(e.P))
  ELSE IF ~Kept(e) THEN "designer_object_lost"
  ELSE IF PLeafTable(e.P, e.P.top, <<>>) # LeafTable(e.D, e.D.top, <<>>) THEN "leaf_table"
  ELSE IF PObservables(e.P) # Observables(e.D) THEN "observables"
  ELSE IF PkgDenote(e.P) # Denote(e.D) THEN "partition"
  ELSE "ok_kept"
Init == l = 1
Next == /\ l <= Len(T_)
        /\ LET e == T_[l]  c == Clause(e) IN PrintT(<<"VERDICT", e.tid, c \in {"ok_raised", "ok_kept"}, c>>)
        /\ l' = l + 1
Spec == Init /\ [][Next]_l
=============================================================================
