SPECIFICATION Spec
