--------------------------- MODULE Trace_GenCache ---------------------------
(* C09 batch validation.  One ndjson line per top-level generator call made on the real library:
     g, kind, key   generator, its kind (fresh / nest / pass / rec), canonical parameter value (equal parameters <=> equal key)
     mod, name      identity token and name of the returned Module
     nested         every generator call made from inside bodies during this call, in order: [g, key, mod]
     bodies         every body execution that began during this call: [g, key]
     mods           every generated Module seen so far in this trace with its current name: [mod, name]
   and a final line op = "export": all generated modules instantiated in one top module and exported.
   The spec replays GenCache's cache: a call whose <<g, key>> is cached must return the cached module
   without running any body; an uncached one must run its body exactly once. *)
EXTENDS Integers, Sequences, FiniteSets, TLC, Json, IOUtils
T_ == ndJsonDeserialize(IOEnv.TRACE_FILE)
VARIABLES l, cache, names, reg, rreg, tid, bad
tv == <<l, cache, names, reg, rreg, tid, bad>>
Range(f) == {f[x] : x \in DOMAIN f}
Ext(f, k, v) == [x \in DOMAIN f \cup {k} |-> IF x = k THEN v ELSE f[x]]
Empty == [x \in {} |-> 0]

(* replay the nested calls then the top call against the cache; returns [cache, bad] *)
RECURSIVE Replay(_, _, _, _)
Replay(c, calls, bodies, k) ==
  IF k > Len(calls) THEN [cache |-> c, bad |-> ""]
  ELSE LET x == calls[k]  key == <<x[1], x[2]>> IN
       IF x[4] = "uncached"           \* enable_cache=False: no memoisation, the body runs on every call
       THEN IF key \notin bodies THEN [cache |-> c, bad |-> "uncached_generator_without_body"] ELSE Replay(c, calls, bodies, k + 1)
       ELSE IF key \in DOMAIN c
       THEN IF c[key] # x[3] THEN [cache |-> c, bad |-> "memo_identity"]
            ELSE IF key \in bodies THEN [cache |-> c, bad |-> "memo_body_rerun"]
            ELSE Replay(c, calls, bodies, k + 1)
       ELSE IF key \notin bodies THEN [cache |-> c, bad |-> "uncached_without_body"]
            ELSE Replay(Ext(c, key, x[3]), calls, bodies, k + 1)

CallClause(e, c0, n0) ==
  LET bodies == {<<b[1], b[2]>> : b \in Range(e.bodies)}
      calls  == e.nested \o << <<e.g, e.key, e.mod, e.kind>> >>
      r      == Replay(c0, calls, bodies, 1)
      ms     == {<<m[1], m[2]>> : m \in Range(e.mods)}
      cached == {<<m[1], m[2]>> : m \in {x \in Range(e.mods) : x[3] # "uncached"}}
      fresh  == {<<c[1], c[2]>> : c \in {x \in Range(calls) : x[4] # "pass"}}
  IN IF e.raised THEN (IF e.mayraise THEN "" ELSE "unexpected_raise")
     ELSE IF r.bad # "" THEN r.bad
     ELSE IF Len(e.bodies) # Cardinality(bodies) /\ e.kind # "uncached" THEN "body_ran_twice"
     ELSE IF \E b \in bodies : b \in DOMAIN c0 THEN "cached_body_rerun"
     ELSE IF \E k1, k2 \in DOMAIN r.cache : k1 # k2 /\ k1[1] = k2[1] /\ r.cache[k1] = r.cache[k2] /\ e.kinds[k1[1]] # "pass"
          THEN "distinct_module"
     ELSE IF \E p \in ms : p[1] \in DOMAIN n0 /\ n0[p[1]] # p[2] THEN "renamed"
     ELSE IF \E p, q \in cached : p[1] # q[1] /\ p[2] = q[2] THEN "name_clash"
     ELSE ""

Init == l = 1 /\ cache = Empty /\ names = Empty /\ reg = Empty /\ rreg = Empty /\ tid = -1 /\ bad = ""

(* two different modules under one name in the same design: the export must be refused *)
HasClash(n) == \E m1, m2 \in DOMAIN n : m1 # m2 /\ n[m1] = n[m2]

Next ==
  /\ l <= Len(T_)
  /\ LET e     == T_[l]
         fresh == e.tid # tid
         c0    == IF fresh THEN Empty ELSE cache
         n0    == IF fresh THEN Empty ELSE names
         b0    == IF fresh THEN "" ELSE bad
         isCall == e.op = "call"
         calls == IF isCall /\ ~e.raised THEN e.nested \o << <<e.g, e.key, e.mod, e.kind>> >> ELSE <<>>
         bodies == IF isCall THEN {<<b[1], b[2]>> : b \in Range(e.bodies)} ELSE {}
         r     == IF isCall /\ ~e.raised THEN Replay(c0, calls, bodies, 1) ELSE [cache |-> c0, bad |-> ""]
         c1    == IF isCall THEN CallClause(e, c0, n0)
                  ELSE IF HasClash(n0) THEN (IF e.raised THEN "" ELSE "name_clash_exported")
                  ELSE IF e.raised THEN "export_raised"
                  ELSE IF e.npkg # e.nmods THEN "export_module_count" ELSE ""
         key   == <<e.g, e.key>>
         (* the name given to <<g, key>> must be the same in every trace of the batch (other orders, other processes) *)
         track == isCall /\ ~e.raised /\ e.kind # "uncached"
         c2    == IF c1 = "" /\ track /\ key \in DOMAIN reg /\ reg[key] # e.name THEN "name_depends_on_history"
                  ELSE IF c1 = "" /\ track /\ e.name \in DOMAIN rreg /\ rreg[e.name] # <<e.g, e.key>> /\ e.kind # "pass"
                       THEN "one_name_for_unequal_parameters"
                  ELSE c1
         b1    == IF b0 # "" THEN b0 ELSE IF c2 = "" THEN "" ELSE c2 \o "@" \o ToString(e.seq)
         last  == l = Len(T_) \/ T_[l + 1].tid # e.tid
     IN /\ cache' = r.cache
        /\ names' = IF isCall /\ ~e.raised THEN [m \in DOMAIN n0 \cup {p[1] : p \in Range(e.mods)} |->
                                     IF m \in DOMAIN n0 THEN n0[m] ELSE (CHOOSE p \in Range(e.mods) : p[1] = m)[2]]
                    ELSE n0
        /\ reg' = IF track /\ key \notin DOMAIN reg THEN Ext(reg, key, e.name) ELSE reg
        /\ rreg' = IF track /\ e.kind # "pass" /\ e.name \notin DOMAIN rreg THEN Ext(rreg, e.name, key) ELSE rreg
        /\ tid' = e.tid /\ bad' = b1 /\ l' = l + 1
        /\ (last => PrintT(<<"VERDICT", e.tid, b1 = "", b1>>))
Spec == Init /\ [][Next]_tv
=============================================================================
