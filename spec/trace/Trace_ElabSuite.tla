--------------------------- MODULE Trace_ElabSuite ---------------------------
(* Elaboration-hook traces of the repository's own test-suite (one pytest process per trace), validated against the bookkeeping part of
   ElabSched.  Unlike Trace_Elab the module DAG is not known in advance (generator calls are resolved while elaborating), so the traversal
   order is not predicted; everything else is replayed exactly:
     per pass cache  done / pending / failed sets  - every logged decision (skip only what is done, "circular" only what is pending, enter only
                      what is neither, re-fail only what failed), every logged |done| and pending set;
     the frame stack - apply_begin / apply_end / exit / fail always concern the top frame; a frame's children are visited by the same pass;
     per module      - with the default pass list: passes applied in list order without gaps or repeats, MarkModules last, a check after the
                      last rewrite; a module is never entered by a later pass than one it still lacks;
     per call        - calls may nest (a generator body may elaborate); a returned outermost call leaves nothing pending and every module it
                      touched complete; a failed one leaves nothing pending.
   Lines: call_begin [np, kindof, strict, nested] | call_end [raised, nested] | the hook events [pos, cache, mod, ndone, pending]. *)
EXTENDS Integers, Sequences, FiniteSets, TLC, Json, IOUtils
T_ == ndJsonDeserialize(IOEnv.TRACE_FILE)
VARIABLES l, st, tid, bad
tv == <<l, st, tid, bad>>
Range(f) == {f[x] : x \in DOMAIN f}
Get(f, c) == IF c \in DOMAIN f THEN f[c] ELSE {}
GetS(f, c) == IF c \in DOMAIN f THEN f[c] ELSE <<>>
Put(f, c, v) == [x \in DOMAIN f \cup {c} |-> IF x = c THEN v ELSE f[x]]
E0 == [x \in {} |-> {}]
S0 == [done |-> E0, pending |-> E0, failedm |-> E0, applied |-> E0, marked |-> {}, stack |-> <<>>, depth |-> 0, touched |-> {}, np |-> 0, kindof |-> <<>>, strict |-> TRUE]

LastRewrite(s, a) == LET R == {k \in 1..Len(a) : s.kindof[a[k]] = "rewrite"} IN IF R = {} THEN 0 ELSE CHOOSE k \in R : \A j \in R : j <= k
Checked(s, a) == \E k \in 1..Len(a) : s.kindof[a[k]] = "check" /\ k > LastRewrite(s, a)
Top(s) == IF s.stack = <<>> THEN [m |-> "", pos |-> 0, cache |-> "", applying |-> TRUE, base |-> 0] ELSE s.stack[Len(s.stack)]
Pop(s) == IF s.stack = <<>> THEN <<>> ELSE SubSeq(s.stack, 1, Len(s.stack) - 1)
Stale(s) == \E c \in DOMAIN s.pending : s.pending[c] # {}

Step(s_, e) ==
  LET s == IF e.ev \in {"call_begin", "call_end"} THEN s_ ELSE [s_ EXCEPT !.marked = IF e.elab THEN @ \cup {e.mod} ELSE @]
      top == Top(s)  c == e.cache
      \* a visit made by a frame that is traversing its children belongs to that frame's pass; inside elaborate_module (apply) and at top level
      \* (or in a nested call) any pass may come next
      same_pass == top.applying \/ Len(s.stack) = top.base \/ (e.pos = top.pos /\ c = top.cache)
  IN
  CASE e.ev = "call_begin" ->
         \* (the purge of unfinished modules' `done` marks: see Trace_Elab)
         LET cs == Range(e.caches)
             idle == \A k \in cs : Get(s.pending, k) = {}
             unfinished == ((UNION {Get(s.done, k) : k \in cs}) \ s.marked) \ UNION {Get(s.failedm, k) : k \in cs}
             done1 == IF idle THEN [k \in DOMAIN s.done |-> IF k \in cs THEN s.done[k] \ unfinished ELSE s.done[k]] ELSE s.done
             applied1 == IF idle THEN [m \in DOMAIN s.applied |-> IF m \in unfinished THEN <<>> ELSE s.applied[m]] ELSE s.applied
         IN
         [s |-> [s EXCEPT !.depth = @ + 1, !.np = e.np, !.kindof = e.kindof, !.strict = @ /\ e.strict, !.done = done1, !.applied = applied1,
                          !.touched = IF s.depth = 0 THEN {} ELSE @],
          bad |-> IF s.depth > 0 /\ ~top.applying THEN "nested_call_outside_a_pass" ELSE ""]
    [] e.ev = "call_end" ->
         LET outer == s.depth = 1
             incomplete == {m \in s.touched : Len(GetS(s.applied, m)) # s.np}
         IN [s |-> [s EXCEPT !.depth = IF @ > 0 THEN @ - 1 ELSE 0, !.stack = IF outer THEN <<>> ELSE @],
             bad |-> IF s.depth = 0 THEN "call_end_without_begin"
                     ELSE IF ~outer THEN ""
                     ELSE IF e.raised THEN (IF Stale(s) THEN "stale_pending_after_failure" ELSE "")
                     ELSE IF s.stack # <<>> THEN "returned_with_open_frames"
                     ELSE IF Stale(s) THEN "stale_pending_after_return"
                     ELSE IF s.strict /\ incomplete # {} THEN "returned_before_all_passes"
                     ELSE ""]
    [] e.ev = "skip_done" ->
         [s |-> s, bad |-> IF ~same_pass THEN "pass_position" ELSE IF e.mod \notin Get(s.done, c) THEN "skipped_module_not_done" ELSE ""]
    [] e.ev = "circular" ->
         [s |-> s, bad |-> IF e.mod \in Get(s.done, c) \/ e.mod \notin Get(s.pending, c) THEN "spurious_circular" ELSE ""]
    [] e.ev = "refail" ->
         [s |-> s, bad |-> IF e.mod \notin Get(s.failedm, c) THEN "refail_of_module_that_did_not_fail" ELSE ""]
    [] e.ev = "enter" ->
         LET p1 == Get(s.pending, c) \cup {e.mod}
             a  == GetS(s.applied, e.mod)
         IN [s |-> [s EXCEPT !.pending = Put(s.pending, c, p1), !.touched = @ \cup {e.mod},
                             !.stack = Append(s.stack, [m |-> e.mod, pos |-> e.pos, cache |-> c, applying |-> FALSE, base |-> Len(s.stack) + 1])],
             bad |-> IF ~same_pass THEN "pass_position"
                     ELSE IF e.mod \in Get(s.done, c) THEN "entered_done_module"
                     ELSE IF e.mod \in Get(s.pending, c) THEN "entered_pending_module"
                     ELSE IF e.mod \in Get(s.failedm, c) THEN "entered_failed_module"
                     ELSE IF e.ndone # Cardinality(Get(s.done, c)) THEN "done_count"
                     ELSE IF Range(e.pending) # p1 THEN "pending_set"
                     ELSE IF s.strict /\ e.pos > 0 /\ e.pos # Len(a) + 1 THEN "pass_skipped_or_repeated"
                     ELSE ""]
    [] e.ev = "fail" ->
         [s |-> [s EXCEPT !.pending = Put(s.pending, c, Get(s.pending, c) \ {e.mod}), !.failedm = Put(s.failedm, c, Get(s.failedm, c) \cup {e.mod}),
                          !.stack = Pop(s)],
          bad |-> IF s.stack = <<>> \/ top.m # e.mod THEN "fail_not_top_frame"
                  ELSE IF Range(e.pending) # Get(s.pending, c) \ {e.mod} THEN "pending_set_after_failure" ELSE ""]
    [] e.ev = "apply_begin" ->
         [s |-> IF s.stack = <<>> THEN s ELSE [s EXCEPT !.stack[Len(s.stack)].applying = TRUE],
          bad |-> IF s.stack = <<>> \/ top.m # e.mod \/ top.applying THEN "apply_not_top_frame" ELSE ""]
    [] e.ev = "apply_end" ->
         [s |-> IF s.stack = <<>> THEN s ELSE [s EXCEPT !.stack[Len(s.stack)].applying = FALSE],
          bad |-> IF s.stack = <<>> \/ top.m # e.mod \/ ~top.applying THEN "apply_end_mismatch" ELSE ""]
    [] e.ev = "exit" ->
         LET a1 == Append(GetS(s.applied, e.mod), e.pos)
             ismark == e.pos > 0 /\ s.kindof[e.pos] = "mark"
         IN [s |-> [s EXCEPT !.pending = Put(s.pending, c, Get(s.pending, c) \ {e.mod}), !.done = Put(s.done, c, Get(s.done, c) \cup {e.mod}),
                             !.applied = Put(s.applied, e.mod, a1), !.marked = IF ismark THEN @ \cup {e.mod} ELSE @, !.stack = Pop(s)],
             bad |-> IF s.stack = <<>> \/ top.m # e.mod \/ top.applying THEN "exit_not_top_frame"
                     ELSE IF e.mod \notin Get(s.pending, c) THEN "exit_of_module_not_pending"
                     ELSE IF s.strict /\ ismark /\ Len(a1) # s.np THEN "marked_incomplete"
                     ELSE IF s.strict /\ ismark /\ ~Checked(s, a1) THEN "not_checked_after_flattening"
                     ELSE ""]
    [] OTHER -> [s |-> s, bad |-> "unknown_event"]

Init == l = 1 /\ st = S0 /\ tid = -1 /\ bad = ""
Next ==
  /\ l <= Len(T_)
  /\ LET e == T_[l]
         fresh == e.tid # tid
         s0 == IF fresh THEN S0 ELSE st
         b0 == IF fresh THEN "" ELSE bad
         r  == Step(s0, e)
         b1 == IF b0 # "" THEN b0 ELSE IF r.bad = "" THEN "" ELSE r.bad \o "@" \o ToString(e.seq)
         last == l = Len(T_) \/ T_[l + 1].tid # e.tid
     IN /\ st' = r.s /\ tid' = e.tid /\ bad' = b1 /\ l' = l + 1
        /\ (last => PrintT(<<"VERDICT", e.tid, b1 = "", b1>>))
Spec == Init /\ [][Next]_tv
=============================================================================
