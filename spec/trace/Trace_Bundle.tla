---------------------------- MODULE Trace_Bundle ----------------------------
(* C10: one ndjson line per module holding one bundle instance `bi` (as a port or internally); logged are the ports
   [n, w, dir] and the internal signals [n, w] of the exported module. *)
EXTENDS Bundles, Json, IOUtils
T_ == ndJsonDeserialize(IOEnv.TRACE_FILE)
VARIABLE l
Range(f) == {f[x] : x \in DOMAIN f}
Clause(e) ==
  LET ports == {[n |-> p[1], w |-> p[2], dir |-> p[3]] : p \in Range(e.ports)}
      sigs  == {[n |-> p[1], w |-> p[2]] : p \in Range(e.sigs)}
      wantp == FlatPorts(e.D, e.bi)
      wants == FlatSignals(e.D, e.bi)
  IN IF e.raised THEN "rejected"
     ELSE IF {[n |-> p.n, w |-> p.w] : p \in ports} # {[n |-> p.n, w |-> p.w] : p \in wantp} THEN "port_names_or_widths"
     ELSE IF ports # wantp THEN "port_directions"
     ELSE IF sigs # wants THEN "internal_signals"
     ELSE ""
Init == l = 1
Next == /\ l <= Len(T_)
        /\ LET e == T_[l]  c == Clause(e) IN PrintT(<<"VERDICT", e.tid, c = "", c>>)
        /\ l' = l + 1
Spec == Init /\ [][Next]_l
=============================================================================
