SPECIFICATION Spec
