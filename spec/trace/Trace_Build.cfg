SPECIFICATION Spec
