------------------------------ MODULE Trace_Pkg ------------------------------
(* C06: every package any successful to_proto call returned must be closed and self-consistent (Package!PkgWF), and
   from_proto and the vlsirtools spice and spectre netlisters must have accepted it (booleans logged by the driver). *)
EXTENDS Package, Json, IOUtils, TLC
T_ == ndJsonDeserialize(IOEnv.TRACE_FILE)
VARIABLE l
(* the vlsirtools netlisters refuse, by design, technology-independent `hdl21.primitives` devices ("compile to a target
   technology first"); netlister acceptance is therefore only demanded of packages without such instances *)
HasPhysicalPrims(P) == \E mn \in DOMAIN P.mods : \E i \in PRange(P.mods[mn].insts) : i.of.k = "ext" /\ i.of.domain = "hdl21.primitives"
Clause(e) ==
  LET f == PkgFaults(e.P) IN
  IF f # {} THEN "pkgwf:" \o ToString(f)
  ELSE IF ~e.import_ok THEN "from_proto_rejected"
  ELSE IF HasPhysicalPrims(e.P) THEN ""
  ELSE IF ~e.spice_ok THEN "spice_netlister_rejected"
  ELSE IF ~e.spectre_ok THEN "spectre_netlister_rejected"
  ELSE ""
Init == l = 1
Next == /\ l <= Len(T_)
        /\ LET e == T_[l]  c == Clause(e) IN PrintT(<<"VERDICT", e.tid, c = "", c>>)
        /\ l' = l + 1
Spec == Init /\ [][Next]_l
=============================================================================
