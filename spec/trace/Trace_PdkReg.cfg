SPECIFICATION Spec
