--------------------------- MODULE Trace_Namespace ---------------------------
(* Batch trace validation for C18.  One ndjson line per operation performed on a real
   hdl21.Module / hdl21.Bundle; the spec state is advanced with Namespace!Apply and every
   observation logged after the call must be the one the spec state dictates.
   Verdicts are total: the first failing clause of a trace is remembered, the batch goes on. *)
EXTENDS Namespace, Json, IOUtils

T == ndJsonDeserialize(IOEnv.TRACE_FILE)

VARIABLES l, st, froz, tid, bad
tvars == <<l, st, froz, tid, bad>>

Range(f) == {f[x] : x \in DOMAIN f}
AsSet(v) == Range(v)                         \* a JSON list of [name, id] pairs -> set of <<name, id>>

ReservedM == {"ports", "signals", "instances", "instarrays", "instbundles", "bundles",
              "literals", "props", "namespace", "add", "get"}
ReservedB == {"signals", "bundles", "namespace", "roles", "props"}     \* (`roles` holds the RoleSet: an HDL value may not take the name)
ViewsM == {"ports", "signals", "instances", "instarrays", "instbundles", "bundles"}
ViewsB == {"signals", "bundles"}
ViewOfM(k) == CASE k = "port" -> "ports" [] k = "signal" -> "signals" [] k = "inst" -> "instances"
                [] k = "array" -> "instarrays" [] k = "pair" -> "instbundles" [] k = "bundle" -> "bundles"
ViewOfB(k) == CASE k \in {"port", "signal"} -> "signals" [] k = "bundle" -> "bundles"

Reserved(e) == IF e.target = "module" THEN ReservedM ELSE ReservedB
Views(e)    == IF e.target = "module" THEN ViewsM ELSE ViewsB
VPairs(e, s, v) == IF e.target = "module" THEN ViewPairs(s, ViewOfM, v) ELSE ViewPairs(s, ViewOfB, v)

(* names the exported package must contain for the live objects of state s (module target) *)
ExpSignals(s) == UNION {LET k == s.ns[n].kind IN
                        IF k \in {"port", "signal"} THEN {n} ELSE IF k = "bundle" THEN {n \o "_x"} ELSE {} : n \in DOMAIN s.ns}
ExpPorts(s)   == {n \in DOMAIN s.ns : s.ns[n].kind = "port"}
ExpInsts(s)   == UNION {LET k == s.ns[n].kind IN
                        IF k = "inst" THEN {n} ELSE IF k = "array" THEN {n \o "_0", n \o "_1"}
                        ELSE IF k = "pair" THEN {n \o "_p", n \o "_n"} ELSE {} : n \in DOMAIN s.ns}

ObsClause(e, s) ==      \* observation clauses for a not-yet-elaborated container in spec state s
  IF AsSet(e.ns) # NsPairs(s) THEN "namespace"
  ELSE IF \E p \in AsSet(e.get) : p[2] # Get(s, p[1]) THEN "get"
  ELSE IF \E p \in AsSet(e.attr) : ~IsPrivate(p[1]) /\ p[1] \notin Reserved(e) /\ p[2] # Get(s, p[1]) THEN "attr"
  ELSE IF \E v \in Views(e) : AsSet(e.views[v]) # VPairs(e, s, v)
       THEN "view_" \o (CHOOSE v \in Views(e) : AsSet(e.views[v]) # VPairs(e, s, v))
  ELSE IF \E p \in AsSet(e.parent) : ~p[2] THEN "parent"
  ELSE IF \E p \in AsSet(e.objname) : ~p[2] THEN "objname"
  ELSE ""

SameObs(e, f) == /\ AsSet(e.ns) = AsSet(f.ns)
                 /\ \A v \in Views(e) : AsSet(e.views[v]) = AsSet(f.views[v])

Clause(e, s0, s1, must, f0) ==
  IF e.op = "export" THEN
     IF e.raised THEN "export_raised"
     ELSE IF e.target # "module" THEN ""
     ELSE IF AsSet(e.psignals) # ExpSignals(s0) THEN "export_signals"
     ELSE IF AsSet(e.pports) # ExpPorts(s0) THEN "export_ports"
     ELSE IF AsSet(e.pinsts) # ExpInsts(s0) THEN "export_instances"
     ELSE ""
  ELSE IF e.op = "classdef" THEN
     IF e.raised # must THEN "classdef_raise"
     ELSE IF must THEN "" ELSE ObsClause(e, s1)
  ELSE IF e.op = "readd" THEN (IF s0.elab THEN (IF SameObs(e, f0) THEN "" ELSE "changed_after_elab") ELSE ObsClause(e, s1))
  ELSE IF must /\ ~e.raised THEN "not_rejected"
  ELSE IF ~must /\ e.raised THEN "unexpected_raise"
  ELSE IF s0.elab THEN (IF SameObs(e, f0) THEN "" ELSE "changed_after_elab")
  ELSE IF e.op = "get" /\ e.result # Get(s0, e.name) THEN "get_result"
  ELSE IF e.op = "elab" THEN ""
  ELSE ObsClause(e, s1)

(* class-style definition: fold SetAttr over the body in order *)
RECURSIVE FoldBody(_, _, _, _)
FoldBody(s, R, body, k) ==
  IF k > Len(body) THEN [st |-> s, raised |-> FALSE]
  \* one object under two names (`p = n = h.Signal()`): refused, as the procedural m.p = x; m.n = x is
  ELSE IF \E j \in 1..(k - 1) : body[j][3] = body[k][3] /\ body[j][1] # body[k][1] /\ ~IsPrivate(body[j][1]) /\ ~IsPrivate(body[k][1]) THEN [st |-> s, raised |-> TRUE]
  ELSE LET r == SetAttr(s, R, body[k][1], body[k][2], body[k][3]) IN
       IF r.raised THEN r ELSE FoldBody(r.st, R, body, k + 1)

Init == l = 1 /\ st = Empty /\ froz = <<>> /\ tid = -1 /\ bad = ""

Next ==
  /\ l <= Len(T)
  /\ LET e     == T[l]
         fresh == e.tid # tid
         s0    == IF fresh THEN Empty ELSE st
         f0    == IF fresh THEN <<>> ELSE froz
         b0    == IF fresh THEN "" ELSE bad
         r     == IF e.op = "classdef" THEN FoldBody(s0, Reserved(e), e.body, 1)
                  ELSE Apply(s0, Reserved(e), e, e.seq)
         \* the OTHER object (values were copied from it, an ExternalModule was built from its ports) stays exactly as it was
         c     == IF e.aux # e.aux0 THEN "other_object_disturbed" ELSE Clause(e, s0, r.st, r.raised, f0)
         b1    == IF b0 # "" THEN b0 ELSE IF c = "" THEN "" ELSE c \o "@" \o ToString(e.seq)
         last  == l = Len(T) \/ T[l + 1].tid # e.tid
     IN /\ st' = r.st
        /\ froz' = IF e.op = "elab" /\ ~s0.elab THEN e ELSE f0
        /\ tid' = e.tid /\ bad' = b1 /\ l' = l + 1
        /\ (last => PrintT(<<"VERDICT", e.tid, b1 = "", b1>>))

Spec == Init /\ [][Next]_tvars
=============================================================================
