SPECIFICATION Spec
