---------------------------- MODULE Trace_Flatten ----------------------------
(* C16: one ndjson line per hierarchy: the source design D, and the package P exported for flatten(top) (or raised), plus `paths`:
   for each instance of the flat module the hierarchical path its ':'-joined name stands for.
   Flattenable(D) (valid, every connection a plain scalar/bus signal) => flatten must return; whenever it returns, the flat module must
   hold exactly one primitive/external instance per leaf device of D, keep the top's ports, and connect two leaf-terminal or port bits
   iff D does. *)
EXTENDS Valid, Package, Json, IOUtils
T_ == ndJsonDeserialize(IOEnv.TRACE_FILE)
VARIABLE l

AllSigTerms(D) == \A mn \in DOMAIN D.mods : \A i \in Range(D.mods[mn].insts) : \A k \in 1..Len(i.conns) : i.conns[k].t.k = "sig"
Flattenable(D) == Status(D) = "valid" /\ AllSigTerms(D)

PathOf(e, n) == IF n \in DOMAIN e.paths THEN e.paths[n] ELSE <<n>>
MapNode(e, n) == IF n[1] = <<>> THEN n ELSE <<PathOf(e, n[1][1]), n[2], n[3], n[4]>>
MapSet(e, S) == {MapNode(e, n) : n \in S}

Clause(e) ==
  \* (a design whose own names contain the ':' separator of flatten's generated names may be refused: e.colon_names)
  IF e.raised THEN (IF Flattenable(e.D) /\ ~e.colon_names THEN "flattenable_design_rejected" ELSE "")
  ELSE IF Status(e.D) \notin {"valid", "lenient"} THEN ""
  ELSE LET pm == e.P.mods[e.P.top] IN
       IF \E i \in PRange(pm.insts) : i.of.k = "mod" THEN "flat_module_still_hierarchical"
       ELSE IF PkgFaults(e.P) # {} THEN "package_malformed:" \o ToString(PkgFaults(e.P))
       ELSE IF {<<PathOf(e, x[1][1]), x[2]>> : x \in PLeafTable(e.P, e.P.top, <<>>)} # LeafTable(e.D, e.D.top, <<>>) THEN "leaf_devices"
       ELSE IF MapSet(e, PObservables(e.P)) # Observables(e.D) THEN "ports_or_terminals"
       ELSE IF {MapSet(e, c) : c \in PkgDenote(e.P)} # Denote(e.D) THEN "connectivity"
       ELSE ""
Init == l = 1
Next == /\ l <= Len(T_)
        /\ LET e == T_[l]  c == Clause(e) IN PrintT(<<"VERDICT", e.tid, c = "", c>>)
        /\ l' = l + 1
Spec == Init /\ [][Next]_l
=============================================================================
