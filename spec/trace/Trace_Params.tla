---------------------------- MODULE Trace_Params ----------------------------
(* C13: one ndjson line per exported instance: target (kind, name), the parameter fields given (name + input descriptor), the
   exported reference (domain, name) and the exported parameters (name + value). *)
EXTENDS Params, Json, IOUtils, TLC
T_ == ndJsonDeserialize(IOEnv.TRACE_FILE)
VARIABLE l
Range(f) == {f[x] : x \in DOMAIN f}
Absent == [v |-> "absent"]
OutOf(e, name) == LET S == {o \in Range(e.out) : o.name = name} IN IF S = {} THEN Absent ELSE (CHOOSE o \in S : TRUE).val
Clause(e) ==
  IF e.raised THEN (IF e.stage = "call" THEN "" ELSE "rejected_at_export")      \* a value check refusing the call itself is not an export fault
  ELSE IF e.kind = "ideal" /\ (e.refdomain # "vlsir.primitives" \/ e.refname # IdealName(e.target)) THEN "ideal_primitive_mapping"
  ELSE IF e.kind = "physical" /\ (e.refdomain # "hdl21.primitives" \/ e.refname # e.target) THEN "physical_primitive_reference"
  ELSE IF \E o1, o2 \in DOMAIN e.out : o1 # o2 /\ e.out[o1].name = e.out[o2].name THEN "duplicate_parameter"
  ELSE IF \E f \in Range(e.inp) : ~Faithful(f.val, OutOf(e, ParamName(e.target, f.name)))
       THEN "value:" \o (CHOOSE f \in Range(e.inp) : ~Faithful(f.val, OutOf(e, ParamName(e.target, f.name)))).name
  ELSE IF \E o \in Range(e.out) : o.name \notin {ParamName(e.target, f.name) : f \in Range(e.inp)} THEN "extra_parameter"
  ELSE ""
Init == l = 1
Next == /\ l <= Len(T_)
        /\ LET e == T_[l]  c == Clause(e) IN PrintT(<<"VERDICT", e.tid, c = "", c>>)
        /\ l' = l + 1
Spec == Init /\ [][Next]_l
=============================================================================
