SPECIFICATION Spec
