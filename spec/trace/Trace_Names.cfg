SPECIFICATION Spec
