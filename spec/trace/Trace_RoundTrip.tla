--------------------------- MODULE Trace_RoundTrip ---------------------------
EXTENDS RoundTrip, Json, IOUtils
T_ == ndJsonDeserialize(IOEnv.TRACE_FILE)
VARIABLE l
Clause(e) == IF e.import_raised THEN "from_proto_raised" ELSE IF e.export_raised THEN "re_export_raised" ELSE Diff(e.P, e.P2)
Init == l = 1
Next == /\ l <= Len(T_)
        /\ LET e == T_[l]  c == Clause(e) IN PrintT(<<"VERDICT", e.tid, c = "", c>>)
        /\ l' = l + 1
Spec == Init /\ [][Next]_l
=============================================================================
