----------------------------- MODULE Trace_Fail -----------------------------
(* C08: the call-level contract after a failure.  One ndjson line per elaborate / export call made after (and including) a call that
   failed, with what a FRESH process gives for the same design as it is now (fresh_raised, fresh_sig, fresh_digest):
     - a call that returns must return exactly what a fresh process returns (never a half-rewritten or stale module)
     - a design that does not contain the offending module (tainted = FALSE) must not be affected
     - a call that raises must raise the error a fresh process raises, or repeat the original failure of this history (origs);
       anything else - e.g. a bogus "circular dependency" - is spurious
   The error signature is the exception type and the last line of its message; where the original failure of this history is repeated, the
   complete message (its digest, when logged) must be the one first reported - an error that grows or changes from attempt to attempt is not
   "the original error again". *)
EXTENDS Integers, Sequences, TLC, Json, IOUtils
T_ == ndJsonDeserialize(IOEnv.TRACE_FILE)
VARIABLES l, origs, ofull, tid, bad
Clause(e, o, of) ==
  IF ~e.raised THEN
       IF e.fresh_raised THEN "returned_where_a_fresh_process_raises"
       ELSE IF e.digest # e.fresh_digest THEN "package_differs_from_fresh_process" ELSE ""
  ELSE IF e.fresh_raised /\ e.sig = e.fresh_sig THEN ""
  ELSE IF e.label = "first" THEN ""                           \* the failure that starts the history (an injected exception)
  ELSE IF ~e.tainted THEN "unrelated_design_poisoned"
  ELSE IF e.sig \in o THEN (IF e.full # "" /\ of # {} /\ e.full \notin of THEN "original_error_reported_differently" ELSE "")
  ELSE "spurious_error"
Init == l = 1 /\ origs = {} /\ ofull = {} /\ tid = -1 /\ bad = ""
Next ==
  /\ l <= Len(T_)
  /\ LET e == T_[l]
         fresh == e.tid # tid
         o0 == IF fresh THEN {} ELSE origs
         f0 == IF fresh THEN {} ELSE ofull
         b0 == IF fresh THEN "" ELSE bad
         c  == Clause(e, o0, f0)
         b1 == IF b0 # "" THEN b0 ELSE IF c = "" THEN "" ELSE c \o "@" \o e.label
         last == l = Len(T_) \/ T_[l + 1].tid # e.tid
     IN /\ origs' = IF e.raised /\ e.label = "first" THEN o0 \cup {e.sig} ELSE o0
        /\ ofull' = IF e.raised /\ e.label = "first" /\ e.full # "" THEN f0 \cup {e.full} ELSE f0
        /\ tid' = e.tid /\ bad' = b1 /\ l' = l + 1
        /\ (last => PrintT(<<"VERDICT", e.tid, b1 = "", b1>>))
Spec == Init /\ [][Next]_<<l, origs, ofull, tid, bad>>
=============================================================================
