------------------------------ MODULE Trace_Conn ------------------------------
(* Connectivity validation (C01, and the final obligation of C04/C05/C10/C16/C19): one ndjson line per
   design: the abstract source design D, and the package P that to_proto returned for it (or raised).
   The two denotations are computed independently (Design!Denote from the source, Package!PkgDenote from
   the package as the netlisters read it) and must agree: same leaf devices, same partition of
   leaf-terminal bits and top-level port bits into nets. *)
EXTENDS Valid, Netlist, Json, IOUtils
T_ == ndJsonDeserialize(IOEnv.TRACE_FILE)
VARIABLE l

(* verdict = <<ok, clause>>.  A fault must be rejected by every entry point tried (e.rej = all raised);
   a valid design that is rejected is counted (rejected_valid) but is not a C01 violation;
   whenever a package is returned for a non-faulty design it must denote the design. *)
Denotes(e) ==
  IF PLeafTable(e.P, e.P.top, <<>>) # LeafTable(e.D, e.D.top, <<>>) THEN "leaf_table"
  ELSE IF PObservables(e.P) # Observables(e.D) THEN "observables"
  ELSE IF PkgDenote(e.P) # Denote(e.D) THEN "partition"
  \* the same leaf devices WITH THE SAME PARAMETERS: every leaf the designer gave parameter values carries exactly those in the package
  ELSE IF ~(LeafParams(e.D, e.D.top, <<>>) \subseteq PLeafParams(e.P, e.P.top, <<>>)) THEN "leaf_parameters"
  \* where the driver also netlisted the package: the SPICE text, read by position, must describe the same circuit (this checks on real
  \* netlists the reading convention PkgDenote assumes, and C01's "and therefore every netlist")
  ELSE IF "N" \in DOMAIN e /\ NetlistDiff(e.N, e.P) # "" THEN NetlistDiff(e.N, e.P)
  ELSE IF "N2" \in DOMAIN e /\ NetlistDiff(e.N2, e.P) # "" THEN "spectre_" \o NetlistDiff(e.N2, e.P)
  ELSE ""

Clause(e) ==
  LET st == Status(e.D) IN
  IF st = "fault" THEN
     \* a module-name clash is an export-time fault: `elaborate` alone is not required to detect it
     LET acc == IF FaultClauses(e.D) \subseteq {"module_name_clash"} THEN SelectSeq(e.accepted, LAMBDA x : x \notin {"elaborate", "retry_elaborate"}) ELSE e.accepted
     IN IF acc = <<>> THEN "ok_fault_rejected" ELSE "fault_not_rejected_by_" \o acc[1]
  ELSE IF st = "unspecified" THEN "ok_unspecified"
  ELSE IF e.raised THEN (IF st = "valid" THEN "rejected_valid" ELSE "ok_lenient_rejected")
  ELSE LET d == Denotes(e) IN IF d = "" THEN "ok_" \o st ELSE d

Init == l = 1
Next == /\ l <= Len(T_)
        /\ LET e == T_[l]  c == Clause(e)
               info == IF Status(e.D) = "fault" THEN c \o ":" \o ToString(FaultClauses(e.D)) ELSE c
           IN PrintT(<<"VERDICT", e.tid, c \in {"ok_fault_rejected", "ok_lenient_rejected", "ok_valid", "ok_lenient", "ok_unspecified", "rejected_valid"}, info>>)
        /\ l' = l + 1
Spec == Init /\ [][Next]_l
=============================================================================
