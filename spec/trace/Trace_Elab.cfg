SPECIFICATION Spec
