----------------------------- MODULE Trace_Build -----------------------------
(* C04 stepwise validation: one ndjson line per connection operation performed on real instances.  The spec mapping is
   advanced with Build!Apply (values are identified by the identity token `vid` of the connected object); after every call
     obs   = the instances' `conns` dictionaries, as [port, vid] pairs
     back  = for every connectable handed to the library so far, the ports its back-reference set names: [vid, <<ports>>]
   must be exactly the spec mapping and its inverse, and the call must raise exactly when Build says so. *)
EXTENDS Build, Json, IOUtils
T_ == ndJsonDeserialize(IOEnv.TRACE_FILE)
VARIABLES l, conns, tid, bad
tv == <<l, conns, tid, bad>>
Range(f) == {f[x] : x \in DOMAIN f}
Ports == {"i0.a", "i1.a", "i0.bp", "i1.bp"}
Empty == [p \in Ports |-> None]
ToS(v) == IF v = None THEN "none" ELSE v

Clause(e, c0, c1, must) ==
  LET obs  == {<<x[1], x[2]>> : x \in Range(e.obs)}
      want == {<<p, c1[p]>> : p \in {q \in Ports : c1[q] # None}}
  IN IF e.raised # must THEN (IF must THEN "not_refused" ELSE "unexpected_raise")
     ELSE IF obs # want THEN "conns_mapping"
     ELSE IF \E b \in Range(e.back) : {x : x \in Range(b[2])} # {p \in Ports : c1[p] = b[1]} THEN "back_references"
     ELSE ""

Init == l = 1 /\ conns = Empty /\ tid = -1 /\ bad = ""
Next ==
  /\ l <= Len(T_)
  /\ LET e  == T_[l]
         fresh == e.tid # tid
         c0 == IF fresh THEN Empty ELSE conns
         b0 == IF fresh THEN "" ELSE bad
         r  == Apply(c0, [op |-> e.op, port |-> e.port, val |-> e.vid])
         c  == Clause(e, c0, r.c, r.raised)
         b1 == IF b0 # "" THEN b0 ELSE IF c = "" THEN "" ELSE c \o "@" \o ToString(e.seq)
         last == l = Len(T_) \/ T_[l + 1].tid # e.tid
     IN /\ conns' = r.c /\ tid' = e.tid /\ bad' = b1 /\ l' = l + 1
        /\ (last => PrintT(<<"VERDICT", e.tid, b1 = "", b1>>))
Spec == Init /\ [][Next]_tv
=============================================================================
