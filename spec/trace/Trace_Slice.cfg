SPECIFICATION Spec
