SPECIFICATION Spec
