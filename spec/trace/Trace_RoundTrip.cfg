SPECIFICATION Spec
