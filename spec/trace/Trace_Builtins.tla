--------------------------- MODULE Trace_Builtins ---------------------------
(* C19: one ndjson line per call of Series / MosStack / Wrapper: the unit (its definition in design U, reference `of`, signal ports, bundle
   ports), the series pair and n, and the exported package.  The expected design is built by Builtins!SeriesDesign / WrapperDesign and the
   two denotations (Design!Denote of the expected design, Package!PkgDenote of the package) must agree. *)
EXTENDS Builtins, Valid, Package, Json, IOUtils
T_ == ndJsonDeserialize(IOEnv.TRACE_FILE)
VARIABLE l
(* nser = 1 is a plain wrapper *)
(* e.inames: the names of the instances of the generated module, in order, as found in the package *)
Expected(e) == IF e.kind = "wrapper" \/ e.n = 1 THEN WrapperDesign(e.U, e.of, e.ports, e.bports, e.inames)
               ELSE SeriesDesign(e.U, e.of, e.ports, e.a, e.b, e.n, e.inames)
WantInsts(e) == IF e.kind = "wrapper" THEN 1 ELSE e.n
Supported(e) == (e.kind = "wrapper") \/ ((\A j \in 1..Len(e.ports) : (e.ports[j].n \in {e.a, e.b}) => e.ports[j].w = 1) /\ (Len(e.bports) = 0))
Clause(e) ==
  IF e.raised THEN (IF Supported(e) THEN "rejected" ELSE "")
  ELSE IF ~Supported(e) THEN ""          \* nothing is specified for a non-scalar series port or a bundle-port unit that was accepted
  ELSE IF Len(e.inames) # WantInsts(e) \/ Cardinality({e.inames[k] : k \in DOMAIN e.inames}) # Len(e.inames) THEN "instance_count"
  ELSE LET D == Expected(e) IN
       IF PkgFaults(e.P) # {} THEN "package_malformed:" \o ToString(PkgFaults(e.P))
       ELSE IF PLeafTable(e.P, e.P.top, <<>>) # LeafTable(D, D.top, <<>>) THEN "leaf_table"
       ELSE IF PObservables(e.P) # Observables(D) THEN "ports_or_leaf_terminals"
       ELSE IF PkgDenote(e.P) # Denote(D) THEN "topology"
       ELSE ""
Init == l = 1
Next == /\ l <= Len(T_)
        /\ LET e == T_[l]  c == Clause(e) IN PrintT(<<"VERDICT", e.tid, c = "", c>>)
        /\ l' = l + 1
Spec == Init /\ [][Next]_l
=============================================================================
