--------------------------- MODULE Trace_Register ---------------------------
(* Single-assignment registers over a whole batch (C07, C12): each line names a key (what was computed: design, entry point,
   format) and a value (digest of the bytes produced).  A key may be written many times - by different histories, processes,
   hash seeds - but always with the same value.  Verdict per trace (tid): the first key it writes differently. *)
EXTENDS Integers, Sequences, TLC, Json, IOUtils
T_ == ndJsonDeserialize(IOEnv.TRACE_FILE)
VARIABLES l, reg, tid, bad
Ext(f, k, v) == [x \in DOMAIN f \cup {k} |-> IF x = k THEN v ELSE f[x]]
Init == l = 1 /\ reg = [x \in {} |-> ""] /\ tid = -1 /\ bad = ""
Next ==
  /\ l <= Len(T_)
  /\ LET e == T_[l]
         b0 == IF e.tid # tid THEN "" ELSE bad
         c  == IF e.key \in DOMAIN reg /\ reg[e.key] # e.val THEN "differs:" \o e.key ELSE ""
         b1 == IF b0 # "" THEN b0 ELSE c
         last == l = Len(T_) \/ T_[l + 1].tid # e.tid
     IN /\ reg' = IF e.key \in DOMAIN reg THEN reg ELSE Ext(reg, e.key, e.val)
        /\ tid' = e.tid /\ bad' = b1 /\ l' = l + 1
        /\ (last => PrintT(<<"VERDICT", e.tid, b1 = "", b1>>))
Spec == Init /\ [][Next]_<<l, reg, tid, bad>>
=============================================================================
