SPECIFICATION Spec
