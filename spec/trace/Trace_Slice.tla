----------------------------- MODULE Trace_Slice -----------------------------
(* C03 trace validation: one ndjson line per indexing/concatenation expression built with the real
   library.  Logged: whether construction raised (cr), the result of asking for the width (wq, width),
   and `acc` = the list of <<sink width, resolved bit sequence read back from the exported package>>
   for every sink width at which the design elaborated and exported. *)
EXTENDS SliceSem, Json, IOUtils, TLC, FiniteSets

T == ndJsonDeserialize(IOEnv.TRACE_FILE)
VARIABLE l
Range(f) == {f[x] : x \in DOMAIN f}

Clause(e) ==
  LET cls == Class(e.x)
      B   == Bits(e.x)
      A   == {<<a[1], a[2]>> : a \in Range(e.acc)}
      good == {<<Len(B), B>>}
  IN CASE cls = "ok" ->
            IF e.cr THEN "rejected_at_construction"
            ELSE IF e.wq = "ok" /\ e.width # Len(B) THEN "reported_width"
            ELSE IF A = {} THEN "rejected"
            ELSE IF \E a \in A : a[1] # Len(B) THEN "wrong_width_accepted"
            ELSE IF A # good THEN "bits"
            ELSE ""
       [] cls = "reject" -> IF A # {} THEN "not_rejected" ELSE ""
       [] cls = "either" ->
            \* a width that IS reported is the number of bits Python selects, whether or not the design is later rejected: a rejected
            \* expression selects nothing and has no width to report, an accepted one selects what Python selects
            IF e.wq = "ok" /\ e.width # Len(B) THEN "reported_width"
            ELSE IF A = {} THEN ""
            ELSE IF \E a \in A : a[1] # Len(B) THEN "wrong_width_accepted"
            ELSE IF A # good THEN "bits"
            ELSE IF e.wq = "ok" /\ e.width # Len(B) THEN "reported_width"
            ELSE ""

Init == l = 1
Next == /\ l <= Len(T)
        /\ LET e == T[l]  c == Clause(e) IN PrintT(<<"VERDICT", e.tid, c = "", c \o ":" \o Class(e.x)>>)
        /\ l' = l + 1
Spec == Init /\ [][Next]_l
=============================================================================
