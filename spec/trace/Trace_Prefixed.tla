--------------------------- MODULE Trace_Prefixed ---------------------------
(* C14 batch validation.  Each ndjson line is one case executed on the real hdl21.Prefixed:
     kind "pair":  operands a, b; results of a+b, a-b, a*b; the six comparisons; hash equality
     kind "unary": operand a; -a, abs(a), a.scale(q) for each prefix q, a.scale(), int(a), float(a) *)
EXTENDS Prefixed, Json, IOUtils, TLC
T_ == ndJsonDeserialize(IOEnv.TRACE_FILE)
VARIABLE l
Range(f) == {f[x] : x \in DOMAIN f}

OpClause(name, r, want) ==
  IF r.raised THEN name \o "_raised"
  ELSE IF ~Eq(Val(r.v), want) THEN name \o "_value" ELSE ""
First(cs) == LET bad == {k \in DOMAIN cs : cs[k] # ""} IN
             IF bad = {} THEN "" ELSE cs[CHOOSE k \in bad : \A j \in bad : k <= j]

PairClause(e) ==
  LET A == Val(e.a)  B == Val(e.b)  c == e.cmp IN
  First(<< OpClause("add", e.add, Add(A, B)),
           OpClause("sub", e.sub, Sub(A, B)),
           OpClause("mul", e.mul, Mul(A, B)),
           IF Raised(c) THEN "cmp_raised" ELSE "",
           IF ~Raised(c) /\ ~Relations(c) THEN "cmp_relations" ELSE "",
           IF ~Raised(c) /\ Far(e.a, e.b) /\ ~Exact(c, e.a, e.b) THEN "cmp_exact" ELSE "",
           IF ~Raised(c) /\ Eq(A, B) /\ ~T(c, "eq") THEN "cmp_equal_values" ELSE "",
           IF Eq(A, B) /\ ~e.hasheq THEN "hash" ELSE "" >>)

ScaleClause(e, k) ==
  LET r == e.scales[k] IN
  IF r.raised THEN "scale_raised"
  ELSE IF r.v.p # e.targets[k] THEN "scale_prefix"
  ELSE IF ~Eq(Val(r.v), Val(e.a)) THEN "scale_value" ELSE ""

UnaryClause(e) ==
  LET A == Val(e.a) IN
  First(<< OpClause("neg", e.neg, Neg(A)),
           OpClause("abs", e.abs, Abs(A)),
           OpClause("autoscale", e.auto, A),
           IF e.auto.raised \/ e.auto.v.p \in PrefixExps THEN "" ELSE "autoscale_prefix",
           First([k \in DOMAIN e.scales |-> ScaleClause(e, k)]),
           IF e.int.raised THEN "int_raised" ELSE IF ~Eq(Dec(e.int.v), Trunc(A)) THEN "int_value" ELSE "",
           IF e.float.raised THEN "float_raised"
           ELSE IF ~Nearest(A, Dec(e.float.f), Dec(e.float.lo), Dec(e.float.hi)) THEN "float_nearest" ELSE "" >>)

ConvClause(e) ==
  LET A == Val(e.a) IN
  First(<< IF e.int.raised THEN "int_raised" ELSE IF ~Eq(Dec(e.int.v), Trunc(A)) THEN "int_value" ELSE "",
           IF e.float.raised THEN "float_raised"
           ELSE IF ~Nearest(A, Dec(e.float.f), Dec(e.float.lo), Dec(e.float.hi)) THEN "float_nearest" ELSE "" >>)

Init == l = 1
Next == /\ l <= Len(T_)
        /\ LET e == T_[l]  c == IF e.kind = "pair" THEN PairClause(e) ELSE IF e.kind = "conv" THEN ConvClause(e) ELSE UnaryClause(e)
           IN PrintT(<<"VERDICT", e.tid, c = "", c>>)
        /\ l' = l + 1
Spec == Init /\ [][Next]_l
=============================================================================
