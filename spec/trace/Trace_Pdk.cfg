SPECIFICATION Spec
