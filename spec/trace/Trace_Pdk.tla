------------------------------ MODULE Trace_Pdk ------------------------------
(* C15 (b, c): one ndjson line per compiled design: the package before (P0), after one compile (P1) and after two (P2), the PDK's
   domain, mapped primitives and device table (read from the running PDK package), the selection request planted on each
   technology-mapped instance, and - if compile raised - the exception type and message length. *)
EXTENDS Pdk, Package, Json, IOUtils
T_ == ndJsonDeserialize(IOEnv.TRACE_FILE)
VARIABLE l
Range(f) == {f[x] : x \in DOMAIN f}
Clause(e) ==
  LET table == Range(e.table)  must == MustRaise(table, e.reqs) IN
  IF e.raised THEN
       (IF ~MayRaise(table, e.reqs) THEN "satisfiable_request_refused"
        ELSE IF e.exc_type = "StopIteration" \/ e.exc_len = 0 THEN "error_not_descriptive" ELSE "")
  ELSE IF SizeFaults(e.sizes) # "" THEN SizeFaults(e.sizes)      \* (decided first: a sizing fault is not hidden behind the next clause)
  ELSE IF must THEN "unsatisfiable_request_compiled"
  ELSE LET d == CompileDiff(e.P0, e.P1, e.domain, Range(e.mapped), table, e.reqs) IN
       IF d # "" THEN d
       ELSE IF e.P2 # e.P1 THEN "compile_twice_differs"
       ELSE IF PkgFaults(e.W1) # {} THEN "compiled_package_malformed:" \o ToString(PkgFaults(e.W1))
       ELSE IF ~e.spice_ok THEN "spice_netlister_rejected"
       ELSE IF ~e.spectre_ok THEN "spectre_netlister_rejected"
       ELSE ""
Init == l = 1
Next == /\ l <= Len(T_)
        /\ LET e == T_[l]  c == Clause(e) IN PrintT(<<"VERDICT", e.tid, c = "", c>>)
        /\ l' = l + 1
Spec == Init /\ [][Next]_l
=============================================================================
