------------------------------- MODULE PdkInd -------------------------------
(* The PDK registry of api/Pdk.tla, restated with Apalache type annotations, to discharge its invariant as an INDUCTIVE invariant
   (any number of operations, any three PDK names): the default, if set, is a registered PDK. *)
EXTENDS Integers, FiniteSets

VARIABLES
  \* @type: Set(Str);
  reg,
  \* @type: Str;
  dflt

Pdks == {"pa", "pb", "pc"}

Register(n)   == reg' = reg \cup {n} /\ UNCHANGED dflt
SetDefault(n) == IF n \in reg THEN dflt' = n /\ UNCHANGED reg ELSE UNCHANGED <<reg, dflt>>
CompileByModule(n) == reg' = reg \cup {n} /\ UNCHANGED dflt
CompileOther  == UNCHANGED <<reg, dflt>>

Init == reg = {} /\ dflt = ""
Next == \E n \in Pdks : Register(n) \/ SetDefault(n) \/ CompileByModule(n) \/ CompileOther

TypeOK == reg \subseteq Pdks /\ dflt \in Pdks \cup {""}
DefaultIsRegistered == dflt = "" \/ dflt \in reg
IndInv == TypeOK /\ DefaultIsRegistered
IndInit == reg \in SUBSET Pdks /\ dflt \in Pdks \cup {""} /\ IndInv
=============================================================================
