-------------------------------- MODULE NsInd --------------------------------
(* The insertion algorithm of a Module namespace (evict the name from the namespace and from EVERY per-kind view, then insert into the
   namespace and into the view of the new object's kind), with Apalache type annotations: Coherent is an INDUCTIVE invariant - for any
   number of insertions over any names, kinds and object ids - and it fails to be one for the pinned tree's variant that evicts only from the
   view of the new kind (EvictAll = FALSE reproduces the C18 defect: Apalache finds the counterexample in one step). *)
EXTENDS Integers, FiniteSets

CONSTANT
  \* @type: Bool;
  EvictAll

VARIABLES
  \* @type: Set(<<Str, Int>>);
  ns,
  \* @type: Str -> Set(<<Str, Int>>);
  views

Names == {"a", "b", "c"}
Views == {"ports", "signals", "instances", "instarrays", "instbundles", "bundles"}
Ids == 1..6
Pairs == Names \X Ids

Insert(n, v, id) ==
  /\ ns' = {p \in ns : p[1] # n} \cup {<<n, id>>}
  /\ views' = [w \in Views |->
                 IF w = v THEN {p \in views[w] : p[1] # n} \cup {<<n, id>>}
                 ELSE IF EvictAll THEN {p \in views[w] : p[1] # n} ELSE views[w]]

Init == ns = {} /\ views = [w \in Views |-> {}]
Next == \E n \in Names, v \in Views, id \in Ids : Insert(n, v, id)

TypeOK == ns \subseteq Pairs /\ views \in [Views -> SUBSET Pairs]
Coherent ==
  /\ \A v \in Views : \A p \in views[v] : p \in ns
  /\ \A p \in ns : \E v \in Views : p \in views[v] /\ \A w \in Views : p \in views[w] => w = v
  /\ \A p \in ns, q \in ns : p[1] = q[1] => p = q
IndInv == TypeOK /\ Coherent
IndInit == ns \in SUBSET Pairs /\ views \in [Views -> SUBSET Pairs] /\ IndInv

CInit == EvictAll = TRUE
CInitPinned == EvictAll = FALSE
=============================================================================
