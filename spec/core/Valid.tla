-------------------------------- MODULE Valid --------------------------------
(***************************************************************************)
(* Which source designs are well formed (the designs C01 speaks about) and *)
(* which contain a fault that must be rejected (C02).                      *)
(*                                                                         *)
(*   Status(D) = "valid"   every connection well formed and well typed,    *)
(*                         with every index in SliceSem's class "ok"       *)
(*               "lenient" as valid, but some index is of class "either"   *)
(*                         (non-unit step / bound beyond [-w, w]): the     *)
(*                         library may reject it; if it returns a package  *)
(*                         the package must still denote the design        *)
(*               "fault"   otherwise: elaborate / to_proto / netlist must  *)
(*                         raise                                           *)
(* FaultClauses(D) names the violated rules (for coverage and reporting).  *)
(***************************************************************************)
EXTENDS Design, FiniteSets

NoCtx == <<"", "">>

RECURSIVE IsSigLike(_, _, _)     \* the term denotes a bit sequence (possibly ill-indexed)
IsSigLike(D, m, t) ==
  CASE t.k \in {"sig", "slice", "cat", "fsig"} -> TRUE
    [] t.k = "pref" -> HasInst(m, t.inst) /\ HasFormal(D, InstOf(m, t.inst).of, t.port)
                       /\ Formal(D, InstOf(m, t.inst).of, t.port).bund = ""
    [] t.k = "bref" -> HasBund(m, t.root) /\ HasLeaf(D, BundOf(m, t.root), t.path)
    [] OTHER -> FALSE

(* structural well-formedness: every object mentioned exists; returns the set of violated rule names *)
RECURSIVE TermFaults(_, _, _)
RECURSIVE Width(_, _, _)
Width(D, m, t) == Len(TB(D, m, <<>>, t, <<>>, 0, NoCtx))

IdxFault(n, idx) ==
  IF idx.k = "int" THEN (IF IntInRange(n, idx.i) THEN {} ELSE {"index_out_of_range"})
  ELSE IF Step(idx) = 0 THEN {"zero_step"}
  ELSE IF Len(Positions(n, idx)) = 0 THEN {"empty_slice"} ELSE {}

TermFaults(D, m, t) ==
  CASE t.k = "sig"   -> IF HasSig(m, t.n) THEN {} ELSE {"no_such_signal"}
    [] t.k = "fsig"  -> {"foreign_or_orphan_signal"}      \* a signal owned by another module, or by none
    [] t.k = "slice" -> LET f == TermFaults(D, m, t.of) IN
                        IF f # {} THEN f
                        ELSE IF ~IsSigLike(D, m, t.of) THEN {"slice_of_bundle"}
                        ELSE IdxFault(Width(D, m, t.of), t.idx)
    [] t.k = "cat"   -> UNION {LET p == t.parts[k] IN
                               IF p.k = "nc" THEN {"noconn_in_concat"}
                               ELSE LET f == TermFaults(D, m, p) IN
                                    IF f # {} THEN f ELSE IF IsSigLike(D, m, p) THEN {} ELSE {"bundle_in_concat"}
                               : k \in 1..Len(t.parts)}
    [] t.k = "pref"  -> IF ~HasInst(m, t.inst) THEN {"no_such_instance"}
                        ELSE IF ~HasFormal(D, InstOf(m, t.inst).of, t.port) THEN {"ref_to_missing_port"} ELSE {}
    [] t.k = "nc"    -> {}
    [] t.k = "bund"  -> IF HasBund(m, t.n) THEN {} ELSE {"no_such_bundle"}
    [] t.k = "bref"  -> IF ~HasBund(m, t.root) THEN {"no_such_bundle"}
                        ELSE IF HasLeaf(D, BundOf(m, t.root), t.path) \/ SubBundle(D, BundOf(m, t.root), t.path) # "" THEN {}
                        ELSE {"ref_to_missing_bundle_member"}
    [] t.k = "anon"  -> UNION {LET x == t.mem[k].t IN
                               IF x.k = "nc" THEN {"noconn_in_anon_bundle"} ELSE TermFaults(D, m, x)
                               : k \in 1..Len(t.mem)}

(* is any index in the term only leniently acceptable (SliceSem class "either")? *)
RECURSIVE Lenient(_, _, _)
Lenient(D, m, t) ==
  CASE t.k = "slice" -> Lenient(D, m, t.of)
                        \/ (t.idx.k = "range" /\ ~(BoundsWithin(Width(D, m, t.of), t.idx) /\ UnitStep(t.idx)))
    [] t.k = "cat"   -> \E k \in 1..Len(t.parts) : Lenient(D, m, t.parts[k])
    [] t.k = "anon"  -> \E k \in 1..Len(t.mem) : Lenient(D, m, t.mem[k].t)
    [] OTHER -> FALSE

(* bundle-like terms: the set of <<leaf path, width>> they carry ({} if not bundle-like) *)
LeafSet(D, b) == {<<l.path, l.w>> : l \in Range(Leaves(D, b))}
RECURSIVE BLeaves(_, _, _)
BLeaves(D, m, t) ==
  CASE t.k = "bund" -> LeafSet(D, BundOf(m, t.n))
    [] t.k = "bref" -> LET sb == SubBundle(D, BundOf(m, t.root), t.path) IN IF sb = "" THEN {} ELSE LeafSet(D, sb)
    [] t.k = "pref" -> LET f == Formal(D, InstOf(m, t.inst).of, t.port) IN IF f.bund = "" THEN {} ELSE LeafSet(D, f.bund)
    [] t.k = "anon" -> UNION {LET x == t.mem[k] IN
                              IF IsSigLike(D, m, x.t) THEN {<< <<x.n>>, Width(D, m, x.t) >>}
                              ELSE {<< <<x.n>> \o lw[1], lw[2] >> : lw \in BLeaves(D, m, x.t)}
                              : k \in 1..Len(t.mem)}
    [] OTHER -> {}
IsBundleLike(D, m, t) == t.k \in {"bund", "anon"} \/ (t.k \in {"bref", "pref"} /\ ~IsSigLike(D, m, t))

(* typing of one connection: set of violated rule names *)
ConnFaults(D, m, inst, c) ==
  LET tf == TermFaults(D, m, c.t) IN
  IF ~HasFormal(D, inst.of, c.p) THEN {"connection_to_missing_port"} \cup tf
  ELSE IF tf # {} THEN tf
  ELSE LET f == Formal(D, inst.of, c.p) IN
       IF c.t.k = "nc" THEN (IF inst.kind = "inst" \/ f.bund = "" THEN {} ELSE {"noconn_on_array_or_pair_bundle_port"})
       ELSE IF f.bund # ""
       THEN (IF ~IsBundleLike(D, m, c.t) THEN {"signal_to_bundle_port"}
             ELSE IF BLeaves(D, m, c.t) # LeafSet(D, f.bund)
                  THEN LET A == BLeaves(D, m, c.t)  B == LeafSet(D, f.bund) IN
                       \* an array's bundle-valued port whose members are given n times as wide (wired element by element, as a signal port may
                       \* be): the property lists no such rule either way
                       IF inst.kind = "array" /\ {x[1] : x \in A} = {x[1] : x \in B}
                          /\ \A x \in A : \E y \in B : y[1] = x[1] /\ x[2] \in {y[2], y[2] * inst.arr}
                       THEN {"array_bundle_member_per_element", "reference_cycle_through_slice_or_concat"} ELSE {"bundle_mismatch"}
                  ELSE {})
       ELSE IF IsSigLike(D, m, c.t)
       THEN LET w == Width(D, m, c.t) IN
            IF w = f.w THEN {}
            ELSE IF inst.kind = "array" /\ w = f.w * inst.arr THEN {}
            ELSE {"width_mismatch"}
       ELSE IF inst.kind = "pair"
       THEN (IF BLeaves(D, m, c.t) = {<< <<PairMembers(inst)[k]>>, f.w >> : k \in 1..Len(PairMembers(inst))} THEN {} ELSE {"pair_bundle_mismatch"})
       ELSE {"bundle_to_signal_port"}

(* a port without an explicit connection is still connected if a live connection references it (inst.port used as a term) *)
InstFaults(D, m, inst, refs) ==
  LET explicit == {inst.conns[k].p : k \in 1..Len(inst.conns)}
      given == explicit \cup {r[2] : r \in {x \in refs : x[1] = inst.n}}
      want  == {f.n : f \in Range(Formals(D, inst.of))}
  IN (IF want \ given # {} THEN {"missing_connection"} ELSE {})
     \cup (IF Cardinality(explicit) # Len(inst.conns) THEN {"duplicate_connection"} ELSE {})
     \cup UNION {ConnFaults(D, m, inst, inst.conns[k]) : k \in 1..Len(inst.conns)}
     \cup (IF inst.kind = "array" /\ inst.arr < 1 THEN {"empty_array"} ELSE {})

(* all port-reference terms occurring in a term *)
RECURSIVE Prefs(_)
Prefs(t) == CASE t.k = "pref"  -> {<<t.inst, t.port>>}
              [] t.k = "slice" -> Prefs(t.of)
              [] t.k = "cat"   -> UNION {Prefs(t.parts[k]) : k \in 1..Len(t.parts)}
              [] t.k = "anon"  -> UNION {Prefs(t.mem[k].t) : k \in 1..Len(t.mem)}
              [] OTHER -> {}
(* ... those not below a slice of a concatenation: a slice of a concatenation may select none of a part's bits, and a reference in a part
   that contributes nothing is discarded before it is ever resolved - whether such a mention "references" the port is left open *)
RECURSIVE PrefsStrict(_)
PrefsStrict(t) == CASE t.k = "pref"  -> {<<t.inst, t.port>>}
                    [] t.k = "slice" -> IF t.of.k = "cat" THEN {} ELSE PrefsStrict(t.of)
                    [] t.k = "cat"   -> UNION {PrefsStrict(t.parts[k]) : k \in 1..Len(t.parts)}
                    [] t.k = "anon"  -> UNION {PrefsStrict(t.mem[k].t) : k \in 1..Len(t.mem)}
                    [] OTHER -> {}
(* reference cycles that pass through a slice or a concatenation (i0.a = i1.a; i1.a = i0.a[0]): plain reference cycles denote one implicit
   net, but what a port that is a slice of itself should mean is nowhere said - left open *)
RECURSIVE ReachP(_, _, _)
ReachP(E, S, fuel) == IF fuel = 0 THEN S ELSE
                      LET S2 == S \cup {e[2] : e \in {x \in E : x[1] \in S}} IN IF S2 = S THEN S ELSE ReachP(E, S2, fuel - 1)
SlicedRefCycle(m) ==
  LET E  == UNION {UNION {{<< <<i.n, i.conns[k].p>>, q >> : q \in Prefs(i.conns[k].t)} : k \in 1..Len(i.conns)} : i \in Range(m.insts)}
      ES == UNION {UNION {{<< <<i.n, i.conns[k].p>>, q >> : q \in Prefs(i.conns[k].t) \ (IF i.conns[k].t.k = "pref" THEN Prefs(i.conns[k].t) ELSE {})}
                          : k \in 1..Len(i.conns)} : i \in Range(m.insts)}
  IN \E e \in ES : e[1] \in ReachP(E, {e[2]}, Cardinality(E) + 1)
ModFaults(D, mn) ==
  LET m == D.mods[mn]
      refs == UNION {UNION {Prefs(i.conns[k].t) : k \in 1..Len(i.conns)} : i \in Range(m.insts)}
      srefs == UNION {UNION {PrefsStrict(i.conns[k].t) : k \in 1..Len(i.conns)} : i \in Range(m.insts)}
      ncports == UNION {{<<i.n, i.conns[k].p>> : k \in {j \in 1..Len(i.conns) : i.conns[j].t.k = "nc"}} : i \in Range(m.insts)}
      names == [k \in 1..(Len(m.sigs) + Len(m.bundles) + Len(m.insts)) |->
                  IF k <= Len(m.sigs) THEN m.sigs[k].n
                  ELSE IF k <= Len(m.sigs) + Len(m.bundles) THEN m.bundles[k - Len(m.sigs)].n
                  ELSE m.insts[k - Len(m.sigs) - Len(m.bundles)].n]
  IN UNION {InstFaults(D, m, i, refs) : i \in Range(m.insts)}
     \cup (IF srefs \cap ncports # {} THEN {"noconn_port_is_referenced"}
           ELSE IF refs \cap ncports # {} THEN {"noconn_port_mentioned_below_slice_of_concat"} ELSE {})
     \cup (IF Cardinality(Range(names)) # Len(names) THEN {"duplicate_name"} ELSE {})
     \cup (IF SlicedRefCycle(m) THEN {"reference_cycle_through_slice_or_concat"} ELSE {})

RECURSIVE Reach(_, _, _)      \* modules reachable from mn; depth-bounded so that cycles terminate
Reach(D, mn, fuel) ==
  IF fuel = 0 THEN {mn} ELSE
  {mn} \cup UNION {IF i.of.k = "mod" THEN Reach(D, i.of.ref, fuel - 1) ELSE {} : i \in Range(D.mods[mn].insts)}
NMods(D) == Cardinality(DOMAIN D.mods)
Cyclic(D) == \E mn \in Reach(D, D.top, NMods(D)) :
               \E i \in Range(D.mods[mn].insts) : i.of.k = "mod" /\ mn \in Reach(D, i.of.ref, NMods(D))

FaultClauses(D) ==
  IF Cyclic(D) THEN {"circular_instantiation"}
  ELSE LET R == Reach(D, D.top, NMods(D)) IN
       UNION {ModFaults(D, mn) : mn \in R}
       \cup (IF \E mn \in R : D.mods[mn].name = "" THEN {"unnamed_module"} ELSE {})
       \cup (IF \E m1, m2 \in R : m1 # m2 /\ D.mods[m1].name = D.mods[m2].name THEN {"module_name_clash"} ELSE {})

AnyLenient(D) == \E mn \in Reach(D, D.top, NMods(D)) : \E i \in Range(D.mods[mn].insts) :
                   \E k \in 1..Len(i.conns) : TermFaults(D, D.mods[mn], i.conns[k].t) = {} /\ Lenient(D, D.mods[mn], i.conns[k].t)

(* rules whose violation C02 does not list among the faults that must be rejected: nothing is demanded of such designs *)
Unlisted == {"noconn_in_concat", "noconn_in_anon_bundle", "noconn_on_array_or_pair_bundle_port", "slice_of_bundle", "bundle_in_concat",
             "duplicate_connection", "empty_array", "duplicate_name", "noconn_port_mentioned_below_slice_of_concat", "array_bundle_member_per_element", "reference_cycle_through_slice_or_concat"}

Status(D) == LET f == FaultClauses(D) IN
             IF f \ Unlisted # {} THEN "fault"
             ELSE IF f # {} THEN "unspecified"
             ELSE IF AnyLenient(D) THEN "lenient" ELSE "valid"
=============================================================================
