------------------------------- MODULE Bundles -------------------------------
(***************************************************************************)
(* C10: what a bundle instance flattens to.                                *)
(*                                                                         *)
(* Bundle definitions as in Design.tla, with per leaf  vis ("port" /       *)
(* "internal"), dir, src, dest (role names, "" if none) and per sub-bundle *)
(* instance  flipped, role.                                                *)
(* FlatLeaves(D, b, flipped, role) = the sequence of                       *)
(*      [path, w, dir]                                                     *)
(* a PORT instance of bundle b (constructed with the given flip state and  *)
(* role) flattens to; an internal instance flattens to the same paths and  *)
(* widths as undirected internal signals.                                  *)
(*   - a leaf declared as a port keeps its direction when the number of    *)
(*     flips on its path is even, has INPUT/OUTPUT swapped when odd        *)
(*   - otherwise, a leaf with source/destination roles is an OUTPUT if the *)
(*     role of the bundle instance holding it is its source, an INPUT if   *)
(*     it is its destination, undirected otherwise                         *)
(*   - INOUT and undirected stay as they are                               *)
(***************************************************************************)
EXTENDS Integers, Sequences, TLC

RECURSIVE BFlat(_)
BFlat(ss) == IF ss = <<>> THEN <<>> ELSE Head(ss) \o BFlat(Tail(ss))
RECURSIVE BJoin(_)
BJoin(p) == IF Len(p) = 1 THEN p[1] ELSE p[1] \o "_" \o BJoin(Tail(p))

FlipDir(d) == IF d = "INPUT" THEN "OUTPUT" ELSE IF d = "OUTPUT" THEN "INPUT" ELSE d

LeafDir(s, flipped, role) ==
  IF s.vis = "port" THEN (IF flipped THEN FlipDir(s.dir) ELSE s.dir)
  ELSE IF role = "" THEN "NONE"
  ELSE IF role = s.src THEN "OUTPUT"
  ELSE IF role = s.dest THEN "INPUT"
  ELSE "NONE"

RECURSIVE FlatLeaves(_, _, _, _)
FlatLeaves(D, b, flipped, role) ==
  LET bd == D.bundles[b] IN
  [k \in 1..Len(bd.sigs) |-> [path |-> <<bd.sigs[k].n>>, w |-> bd.sigs[k].w, dir |-> LeafDir(bd.sigs[k], flipped, role)]]
  \o BFlat([k \in 1..Len(bd.subs) |->
        LET sb  == bd.subs[k]
            sub == FlatLeaves(D, sb.of, (flipped # sb.flipped), sb.role)
        IN [j \in 1..Len(sub) |-> [path |-> <<sb.n>> \o sub[j].path, w |-> sub[j].w, dir |-> sub[j].dir]]])

(* the ports / internal signals of a module holding bundle instance [n, of, port, flipped, role] *)
FlatPorts(D, bi) ==
  IF ~bi.port THEN {}
  ELSE {[n |-> BJoin(<<bi.n>> \o l.path), w |-> l.w, dir |-> l.dir] : l \in {FlatLeaves(D, bi.of, bi.flipped, bi.role)[k] : k \in 1..Len(FlatLeaves(D, bi.of, bi.flipped, bi.role))}}
FlatSignals(D, bi) ==
  IF bi.port THEN {}
  ELSE {[n |-> BJoin(<<bi.n>> \o l.path), w |-> l.w] : l \in {FlatLeaves(D, bi.of, FALSE, "")[k] : k \in 1..Len(FlatLeaves(D, bi.of, FALSE, ""))}}
=============================================================================
