------------------------------- MODULE Package -------------------------------
(***************************************************************************)
(* The meaning of an exported vlsir.circuit.Package, read the way the      *)
(* VLSIR netlisters read it: a slice is bits bot..top inclusive; a bus,    *)
(* a slice and the parts of a concatenation are laid out most-significant  *)
(* first against the callee's port, i.e. the LAST part carries the lowest  *)
(* bits.                                                                   *)
(*                                                                         *)
(* P == [ mods : qualified name -> [sigs : Seq([n, w]), ports : Seq([n, dir]),     *)
(*                        insts : Seq([n, of : [k, ref], conns : Seq([p, t])])],  *)
(*        leaves : ref -> Seq([n, w]),   declared external modules + primitives    *)
(*        order : Seq(qualified name),   definition order in the package          *)
(*        top : qualified name ]                                                   *)
(* PTerm: [k:"sig", n] | [k:"slice", n, top, bot] | [k:"cat", parts]       *)
(***************************************************************************)
EXTENDS PySeq, Net, FiniteSets

PRange(f) == {f[x] : x \in DOMAIN f}
PSigBits(path, n, w) == [b \in 1..w |-> <<path, "s", n, b - 1>>]
PHasSig(m, n) == \E s \in PRange(m.sigs) : s.n = n
PSigW(m, n) == (CHOOSE s \in PRange(m.sigs) : s.n = n).w

RECURSIVE PBits(_, _, _)
PBits(m, path, t) ==
  CASE t.k = "sig"   -> PSigBits(path, t.n, PSigW(m, t.n))
    [] t.k = "slice" -> [b \in 1..(t.top - t.bot + 1) |-> <<path, "s", t.n, t.bot + b - 1>>]
    [] t.k = "cat"   -> Flat(Rev([k \in 1..Len(t.parts) |-> PBits(m, path, t.parts[k])]))

RECURSIVE PEdges(_, _, _)
PEdges(P, mn, path) ==
  LET m == P.mods[mn] IN
  UNION { UNION { LET c == inst.conns[k]  A == PBits(m, path, c.t)
                  IN { << <<Append(path, inst.n), "s", c.p, b - 1>>, A[b] >> : b \in 1..Len(A) } : k \in 1..Len(inst.conns) }
          \cup (IF inst.of.k = "mod" THEN PEdges(P, inst.of.ref, Append(path, inst.n)) ELSE {})
        : inst \in PRange(m.insts) }

RECURSIVE PLeafBits(_, _, _)
PLeafBits(P, mn, path) ==
  LET m == P.mods[mn] IN
  UNION { IF inst.of.k = "mod" THEN PLeafBits(P, inst.of.ref, Append(path, inst.n))
          ELSE UNION { PRange(PSigBits(Append(path, inst.n), p.n, p.w)) : p \in PRange(P.leaves[inst.of.ref]) }
        : inst \in PRange(m.insts) }

PTopPortBits(P) == LET m == P.mods[P.top] IN
                   UNION { PRange(PSigBits(<<>>, p.n, PSigW(m, p.n))) : p \in PRange(m.ports) }
PObservables(P) == PLeafBits(P, P.top, <<>>) \cup PTopPortBits(P)
PkgDenote(P) == ObsPartition(PEdges(P, P.top, <<>>), PObservables(P))

RECURSIVE PLeafTable(_, _, _)
PLeafTable(P, mn, path) ==
  LET m == P.mods[mn] IN
  UNION { IF inst.of.k = "mod" THEN PLeafTable(P, inst.of.ref, Append(path, inst.n))
          ELSE {<<Append(path, inst.n), inst.of.ref>>}
        : inst \in PRange(m.insts) }

(* parameter values of the leaf instances that carry a `pv` field (projected as <<name, integer>> pairs) *)
RECURSIVE PLeafParams(_, _, _)
PLeafParams(P, mn, path) ==
  LET m == P.mods[mn] IN
  UNION { IF inst.of.k = "mod" THEN PLeafParams(P, inst.of.ref, Append(path, inst.n))
          ELSE IF "pv" \in DOMAIN inst THEN {<<Append(path, inst.n), {<<inst.pv[j][1], inst.pv[j][2]>> : j \in 1..Len(inst.pv)}>>} ELSE {}
        : inst \in PRange(m.insts) }

(* ---------------- C06: closure and self-consistency ---------------- *)
(* P additionally carries  exts : Seq([name, domain, ports : Seq([n, w])])  - the declared external modules, and every
   instance reference carries `domain` ("" for local references). *)
PrimPorts(dom, name) ==
  IF dom = "hdl21.primitives" THEN
     (CASE name = "Mos" -> <<"d", "g", "s", "b">>
        [] name = "Bipolar" -> <<"c", "b", "e">>
        [] name \in {"Diode", "PhysicalResistor", "PhysicalCapacitor", "PhysicalInductor", "PhysicalShort"} -> <<"p", "n">>
        [] name \in {"ThreeTerminalResistor", "ThreeTerminalCapacitor", "ThreeTerminalInductor"} -> <<"p", "n", "b">>
        [] OTHER -> <<>>)
  ELSE IF dom = "vlsir.primitives" THEN
     (CASE name \in {"vdc", "vpulse", "vsin", "isource", "resistor", "capacitor", "inductor"} -> <<"p", "n">>
        [] name \in {"vcvs", "ccvs", "vccs", "cccs"} -> <<"p", "n", "cp", "cn">>
        [] OTHER -> <<>>)
  ELSE <<>>

Declared(P, dom, name) == {x \in PRange(P.exts) : x.name = name /\ x.domain = dom}
(* ports of the target of an instance reference: sequence of [n, w]; <<>> if it does not resolve *)
TargetPorts(P, of) ==
  IF of.k = "mod" THEN
     (IF of.ref \in DOMAIN P.mods
      THEN LET m == P.mods[of.ref] IN [k \in 1..Len(m.ports) |-> [n |-> m.ports[k].n, w |-> IF PHasSig(m, m.ports[k].n) THEN PSigW(m, m.ports[k].n) ELSE 0]]
      ELSE <<>>)
  ELSE IF Declared(P, of.domain, of.ref) # {} THEN (CHOOSE x \in Declared(P, of.domain, of.ref) : TRUE).ports
  ELSE LET pp == PrimPorts(of.domain, of.ref) IN [k \in 1..Len(pp) |-> [n |-> pp[k], w |-> 1]]
Resolves(P, of) ==
  IF of.k = "mod" THEN of.ref \in DOMAIN P.mods
  ELSE Declared(P, of.domain, of.ref) # {} \/ PrimPorts(of.domain, of.ref) # <<>>

NoDup(seq) == Cardinality(PRange(seq)) = Len(seq)
IndexIn(seq, x) == CHOOSE k \in 1..Len(seq) : seq[k] = x

RECURSIVE TargetFaults(_, _)
TargetFaults(m, t) ==
  CASE t.k = "sig"   -> IF PHasSig(m, t.n) THEN {} ELSE {"undeclared_signal"}
    [] t.k = "slice" -> IF ~PHasSig(m, t.n) THEN {"undeclared_signal"}
                        ELSE IF t.bot < 0 \/ t.top < t.bot \/ t.top >= PSigW(m, t.n) THEN {"slice_outside_signal"} ELSE {}
    [] t.k = "cat"   -> (IF Len(t.parts) = 0 THEN {"empty_concat"} ELSE {}) \cup UNION {TargetFaults(m, t.parts[k]) : k \in 1..Len(t.parts)}
RECURSIVE TargetWidth(_, _)
TargetWidth(m, t) ==
  CASE t.k = "sig" -> PSigW(m, t.n) [] t.k = "slice" -> t.top - t.bot + 1
    [] t.k = "cat" -> IF Len(t.parts) = 0 THEN 0 ELSE TargetWidth(m, t.parts[1]) + TargetWidth(m, [t EXCEPT !.parts = Tail(@)])

InstWF(P, m, inst) ==
  IF ~Resolves(P, inst.of) THEN {"unresolved_reference"}
  ELSE LET tp == TargetPorts(P, inst.of)
           want == {tp[k].n : k \in 1..Len(tp)}
           got == [k \in 1..Len(inst.conns) |-> inst.conns[k].p]
       IN (IF PRange(got) # want THEN {"ports_not_connected_exactly"} ELSE {})
          \cup (IF ~NoDup(got) THEN {"port_connected_twice"} ELSE {})
          \cup UNION {LET c == inst.conns[k]  tf == TargetFaults(m, c.t) IN
                      IF tf # {} THEN tf
                      ELSE IF c.p \in want /\ TargetWidth(m, c.t) # (CHOOSE q \in PRange(tp) : q.n = c.p).w THEN {"connection_width"} ELSE {}
                      : k \in 1..Len(inst.conns)}

ModWF(P, mn, pos) ==
  LET m == P.mods[mn] IN
  (IF ~NoDup([k \in 1..Len(m.sigs) |-> m.sigs[k].n]) THEN {"duplicate_signal"} ELSE {})
  \cup (IF ~NoDup([k \in 1..Len(m.ports) |-> m.ports[k].n]) THEN {"duplicate_port"} ELSE {})
  \cup (IF \E k \in 1..Len(m.ports) : ~PHasSig(m, m.ports[k].n) THEN {"port_without_signal"} ELSE {})
  \cup (IF ~NoDup([k \in 1..Len(m.insts) |-> m.insts[k].n]) THEN {"duplicate_instance"} ELSE {})
  \cup (IF \E k \in 1..Len(m.sigs) : m.sigs[k].w < 1 THEN {"nonpositive_width"} ELSE {})
  \cup (IF \E i \in PRange(m.insts) : i.of.k = "mod" /\ i.of.ref \in PRange(P.order) /\ IndexIn(P.order, i.of.ref) >= pos
        THEN {"use_before_definition"} ELSE {})
  \cup UNION {InstWF(P, m, i) : i \in PRange(m.insts)}

PkgFaults(P) ==
  (IF ~NoDup(P.order) THEN {"duplicate_module_name"} ELSE {})
  \cup (IF ~NoDup([k \in 1..Len(P.exts) |-> <<P.exts[k].domain, P.exts[k].name>>]) THEN {"duplicate_external_module"} ELSE {})
  \cup UNION {ModWF(P, P.order[k], k) : k \in 1..Len(P.order)}
PkgWF(P) == PkgFaults(P) = {}
=============================================================================
