------------------------------- MODULE Package -------------------------------
(***************************************************************************)
(* The meaning of an exported vlsir.circuit.Package, read the way the      *)
(* VLSIR netlisters read it: a slice is bits bot..top inclusive; a bus,    *)
(* a slice and the parts of a concatenation are laid out most-significant  *)
(* first against the callee's port, i.e. the LAST part carries the lowest  *)
(* bits.                                                                   *)
(*                                                                         *)
(* P == [ mods : qualified name -> [sigs : Seq([n, w]), ports : Seq([n, dir]),     *)
(*                        insts : Seq([n, of : [k, ref], conns : Seq([p, t])])],  *)
(*        leaves : ref -> Seq([n, w]),   declared external modules + primitives    *)
(*        order : Seq(qualified name),   definition order in the package          *)
(*        top : qualified name ]                                                   *)
(* PTerm: [k:"sig", n] | [k:"slice", n, top, bot] | [k:"cat", parts]       *)
(***************************************************************************)
EXTENDS PySeq, Net

PRange(f) == {f[x] : x \in DOMAIN f}
PSigBits(path, n, w) == [b \in 1..w |-> <<path, "s", n, b - 1>>]
PHasSig(m, n) == \E s \in PRange(m.sigs) : s.n = n
PSigW(m, n) == (CHOOSE s \in PRange(m.sigs) : s.n = n).w

RECURSIVE PBits(_, _, _)
PBits(m, path, t) ==
  CASE t.k = "sig"   -> PSigBits(path, t.n, PSigW(m, t.n))
    [] t.k = "slice" -> [b \in 1..(t.top - t.bot + 1) |-> <<path, "s", t.n, t.bot + b - 1>>]
    [] t.k = "cat"   -> Flat(Rev([k \in 1..Len(t.parts) |-> PBits(m, path, t.parts[k])]))

RECURSIVE PEdges(_, _, _)
PEdges(P, mn, path) ==
  LET m == P.mods[mn] IN
  UNION { UNION { LET c == inst.conns[k]  A == PBits(m, path, c.t)
                  IN { << <<Append(path, inst.n), "s", c.p, b - 1>>, A[b] >> : b \in 1..Len(A) } : k \in 1..Len(inst.conns) }
          \cup (IF inst.of.k = "mod" THEN PEdges(P, inst.of.ref, Append(path, inst.n)) ELSE {})
        : inst \in PRange(m.insts) }

RECURSIVE PLeafBits(_, _, _)
PLeafBits(P, mn, path) ==
  LET m == P.mods[mn] IN
  UNION { IF inst.of.k = "mod" THEN PLeafBits(P, inst.of.ref, Append(path, inst.n))
          ELSE UNION { PRange(PSigBits(Append(path, inst.n), p.n, p.w)) : p \in PRange(P.leaves[inst.of.ref]) }
        : inst \in PRange(m.insts) }

PTopPortBits(P) == LET m == P.mods[P.top] IN
                   UNION { PRange(PSigBits(<<>>, p.n, PSigW(m, p.n))) : p \in PRange(m.ports) }
PObservables(P) == PLeafBits(P, P.top, <<>>) \cup PTopPortBits(P)
PkgDenote(P) == ObsPartition(PEdges(P, P.top, <<>>), PObservables(P))

RECURSIVE PLeafTable(_, _, _)
PLeafTable(P, mn, path) ==
  LET m == P.mods[mn] IN
  UNION { IF inst.of.k = "mod" THEN PLeafTable(P, inst.of.ref, Append(path, inst.n))
          ELSE {<<Append(path, inst.n), inst.of.ref>>}
        : inst \in PRange(m.insts) }
=============================================================================
