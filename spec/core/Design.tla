------------------------------- MODULE Design -------------------------------
(***************************************************************************)
(* The meaning of an hdl21 source design (property C01 and everything that *)
(* compares circuits): which leaf devices exist and which observable bits  *)
(* (leaf-terminal bits, top-level port bits) lie on one net.               *)
(*                                                                         *)
(* D == [ bundles : name -> [sigs : Seq([n, w, vis, dir, src, dest]),      *)
(*                           subs : Seq([n, of, flipped])],                *)
(*        mods : name -> [sigs : Seq([n, w, port, dir]),                   *)
(*                        bundles : Seq([n, of, port, flipped, role]),     *)
(*                        insts : Seq([n, kind, arr, of : [k, ref],        *)
(*                                     conns : Seq([p, t])])],             *)
(*        leaves : ref -> Seq([n, w])      ports of primitives / externals *)
(*        top : name ]                                                     *)
(* Term t:  [k:"sig", n] | [k:"slice", of, idx] | [k:"cat", parts]         *)
(*        | [k:"pref", inst, port] | [k:"nc", id, name]                    *)
(*        | [k:"bund", n] | [k:"bref", root, path] | [k:"anon", mem]       *)
(*                                                                         *)
(* A node is <<path, kind, name, bit>>: bit `bit` of signal `name` in the  *)
(* module instance reached from the top by the instance names in `path`.   *)
(* A port of an instance i is the signal of that name inside i, so the     *)
(* terminal bit of a leaf is <<path \o <<i>>, "s", port, bit>>.            *)
(* The meaning is defined by the language, not by any elaboration pass:    *)
(* a connection joins port bit k to bit k of the connected term; a port    *)
(* reference stands for the referenced port's own bits; a no-connect for   *)
(* private fresh bits; nets are connected components.                      *)
(***************************************************************************)
EXTENDS PySeq, Net

Range(f) == {f[x] : x \in DOMAIN f}
RECURSIVE JoinU(_)
JoinU(p) == IF Len(p) = 1 THEN p[1] ELSE p[1] \o "_" \o JoinU(Tail(p))
RECURSIVE JoinD(_)        \* identity of a bundle member: its path, joined with a separator that cannot occur in member names
JoinD(p) == IF Len(p) = 1 THEN p[1] ELSE p[1] \o "." \o JoinD(Tail(p))

(* ---------------- bundles ---------------- *)
RECURSIVE Leaves(_, _)      \* sequence of [path, w] for the bundle definition named b
Leaves(D, b) ==
  LET bd == D.bundles[b] IN
  [k \in 1..Len(bd.sigs) |-> [path |-> <<bd.sigs[k].n>>, w |-> bd.sigs[k].w]]
  \o Flat([k \in 1..Len(bd.subs) |->
        LET sub == Leaves(D, bd.subs[k].of) IN
        [j \in 1..Len(sub) |-> [path |-> <<bd.subs[k].n>> \o sub[j].path, w |-> sub[j].w]]])
RECURSIVE SubBundle(_, _, _)   \* bundle definition name reached from b along path p ("" if p does not name a sub-bundle)
SubBundle(D, b, p) ==
  IF p = <<>> THEN b ELSE
  LET S == {s \in Range(D.bundles[b].subs) : s.n = p[1]} IN
  IF S = {} THEN "" ELSE SubBundle(D, (CHOOSE s \in S : TRUE).of, Tail(p))
HasLeaf(D, b, p) == \E l \in Range(Leaves(D, b)) : l.path = p
LeafW(D, b, p) == (CHOOSE l \in Range(Leaves(D, b)) : l.path = p).w

(* ---------------- helpers over module records ---------------- *)
HasSig(m, n)  == \E s \in Range(m.sigs) : s.n = n
SigW(m, n)    == (CHOOSE s \in Range(m.sigs) : s.n = n).w
HasInst(m, n) == \E x \in Range(m.insts) : x.n = n
InstOf(m, n)  == CHOOSE x \in Range(m.insts) : x.n = n
HasBund(m, n) == \E b \in Range(m.bundles) : b.n = n
BundOf(m, n)  == (CHOOSE b \in Range(m.bundles) : b.n = n).of

(* formal ports of an instantiable: sequence of [n, w, bund] ; bund = "" for signal-valued ports *)
Formals(D, of) ==
  IF of.k = "mod"
  THEN LET m == D.mods[of.ref] IN
       SelectSeq([k \in 1..Len(m.sigs) |-> [n |-> m.sigs[k].n, w |-> m.sigs[k].w, bund |-> "", port |-> m.sigs[k].port]],
                 LAMBDA x : x.port)
       \o SelectSeq([k \in 1..Len(m.bundles) |-> [n |-> m.bundles[k].n, w |-> 0, bund |-> m.bundles[k].of, port |-> m.bundles[k].port]],
                    LAMBDA x : x.port)
  ELSE [k \in 1..Len(D.leaves[of.ref]) |-> [n |-> D.leaves[of.ref][k].n, w |-> D.leaves[of.ref][k].w, bund |-> "", port |-> TRUE]]
HasFormal(D, of, p) == \E f \in Range(Formals(D, of)) : f.n = p
Formal(D, of, p) == CHOOSE f \in Range(Formals(D, of)) : f.n = p

SigBits(path, n, w) == [b \in 1..w |-> <<path, "s", n, b - 1>>]
(* bits of bundle members live in a name space of their own ("b"): a designer signal that happens to be called like a
   flattened member (b_x beside bundle instance b) is a different object *)
BBits(path, n, w) == [b \in 1..w |-> <<path, "b", n, b - 1>>]

(* ---------------- bits of a term ---------------- *)
(* TB: bits of term t, read at bundle-leaf path lp (<<>> for signal-like use); w = width wanted, used only by no-connects;
   ctx = <<instance name, port name>> of the connection being made (gives each no-connected port its own private net) *)
RECURSIVE TB(_, _, _, _, _, _, _)
TB(D, m, path, t, lp, w, ctx) ==
  CASE t.k = "sig"   -> SigBits(path, t.n, SigW(m, t.n))
    [] t.k = "slice" -> Sel(TB(D, m, path, t.of, <<>>, 0, ctx), t.idx)
    [] t.k = "cat"   -> Flat([k \in 1..Len(t.parts) |-> TB(D, m, path, t.parts[k], <<>>, 0, ctx)])
    [] t.k = "pref"  -> LET f  == Formal(D, InstOf(m, t.inst).of, t.port)
                            ww == IF f.bund = "" THEN f.w ELSE LeafW(D, f.bund, lp)
                        IN IF f.bund = "" THEN SigBits(Append(path, t.inst), t.port, ww)
                           ELSE BBits(Append(path, t.inst), JoinD(<<t.port>> \o lp), ww)
    [] t.k = "nc"    -> [b \in 1..w |-> <<path, "nc", JoinD(<<ctx[1], ctx[2]>> \o lp), b - 1>>]
    [] t.k = "bund"  -> BBits(path, JoinD(<<t.n>> \o lp), LeafW(D, BundOf(m, t.n), lp))
    [] t.k = "bref"  -> BBits(path, JoinD(<<t.root>> \o t.path \o lp), LeafW(D, BundOf(m, t.root), t.path \o lp))
    [] t.k = "anon"  -> LET mem == CHOOSE x \in Range(t.mem) : x.n = lp[1] IN TB(D, m, path, mem.t, Tail(lp), w, ctx)

IsBundleTerm(D, m, t) ==
  \/ t.k \in {"bund", "anon"}
  \/ t.k = "bref" /\ SubBundle(D, BundOf(m, t.root), t.path) # ""
  \/ t.k = "pref" /\ Formal(D, InstOf(m, t.inst).of, t.port).bund # ""

(* an instance bundle stands for one instance per signal of its bundle type: h.Pair is the one over Diff (p, n); others, made with
   h.InstanceBundleType, carry the member names of their bundle in `members` *)
PairMembers(inst) == IF "members" \in DOMAIN inst THEN inst.members ELSE <<"p", "n">>
(* element instances an instance-like stands for *)
Elems(inst) == CASE inst.kind = "inst"  -> <<inst.n>>
                 [] inst.kind = "array" -> [k \in 1..inst.arr |-> inst.n \o "_" \o ToString(k - 1)]
                 [] inst.kind = "pair"  -> [k \in 1..Len(PairMembers(inst)) |-> inst.n \o "_" \o PairMembers(inst)[k]]
PairLeaf(inst, k) == <<PairMembers(inst)[k]>>

ConnEdges(D, m, path, inst, c) ==
  LET f   == Formal(D, inst.of, c.p)
      es  == Elems(inst)
      ctx == <<inst.n, c.p>>
  IN IF c.t.k = "nc"
     THEN {}          \* a no-connect joins nothing: every port bit of every element stays on a net of its own
     ELSE IF f.bund # ""
     THEN \* bundle-valued port: leaf by leaf, the same bundle to every element
          UNION { UNION { LET lf == Leaves(D, f.bund)[l]
                              F  == BBits(Append(path, es[k]), JoinD(<<c.p>> \o lf.path), lf.w)
                              A  == TB(D, m, path, c.t, lf.path, lf.w, ctx)
                          IN { <<F[b], A[b]>> : b \in 1..lf.w } : l \in 1..Len(Leaves(D, f.bund)) } : k \in 1..Len(es) }
     ELSE IF inst.kind = "pair" /\ IsBundleTerm(D, m, c.t)
     THEN UNION { LET F == SigBits(Append(path, es[k]), c.p, f.w)
                      A == TB(D, m, path, c.t, PairLeaf(inst, k), f.w, ctx)
                  IN { <<F[b], A[b]>> : b \in 1..f.w } : k \in 1..Len(es) }
     ELSE LET A == TB(D, m, path, c.t, <<>>, f.w, ctx) IN
          UNION { LET F  == SigBits(Append(path, es[k]), c.p, f.w)
                      Ak == IF Len(A) = f.w THEN A ELSE SubSeq(A, (k - 1) * f.w + 1, k * f.w)
                  IN { <<F[b], Ak[b]>> : b \in 1..f.w } : k \in 1..Len(es) }

RECURSIVE Edges(_, _, _)
Edges(D, mn, path) ==
  LET m == D.mods[mn] IN
  UNION { UNION { ConnEdges(D, m, path, inst, inst.conns[c]) : c \in 1..Len(inst.conns) }
          \cup (IF inst.of.k = "mod"
                THEN UNION { Edges(D, inst.of.ref, Append(path, Elems(inst)[k])) : k \in 1..Len(Elems(inst)) }
                ELSE {})
        : inst \in Range(m.insts) }

RECURSIVE LeafBits(_, _, _)
LeafBits(D, mn, path) ==
  LET m == D.mods[mn] IN
  UNION { UNION { IF inst.of.k = "mod" THEN LeafBits(D, inst.of.ref, Append(path, Elems(inst)[k]))
                  ELSE UNION { Range(SigBits(Append(path, Elems(inst)[k]), p.n, p.w)) : p \in Range(D.leaves[inst.of.ref]) }
                : k \in 1..Len(Elems(inst)) } : inst \in Range(m.insts) }

TopPortBits(D) ==
  LET m == D.mods[D.top] IN
  UNION { Range(SigBits(<<>>, s.n, s.w)) : s \in {x \in Range(m.sigs) : x.port} }
  \cup UNION { UNION { Range(SigBits(<<>>, JoinU(<<b.n>> \o l.path), l.w)) : l \in Range(Leaves(D, b.of)) }
             : b \in {x \in Range(m.bundles) : x.port} }

(* a bundle-valued port of the top module is observable as the flattened scalar ports (C10 names them) *)
TopBundleEdges(D) ==
  LET m == D.mods[D.top] IN
  UNION { UNION { {<<SigBits(<<>>, JoinU(<<b.n>> \o l.path), l.w)[k], BBits(<<>>, JoinD(<<b.n>> \o l.path), l.w)[k]>> : k \in 1..l.w}
                  : l \in Range(Leaves(D, b.of)) } : b \in {x \in Range(m.bundles) : x.port} }
Observables(D) == LeafBits(D, D.top, <<>>) \cup TopPortBits(D)
Denote(D) == ObsPartition(Edges(D, D.top, <<>>) \cup TopBundleEdges(D), Observables(D))

(* the leaf devices: <<hierarchical path, target>> *)
RECURSIVE LeafTable(_, _, _)
LeafTable(D, mn, path) ==
  LET m == D.mods[mn] IN
  UNION { UNION { IF inst.of.k = "mod" THEN LeafTable(D, inst.of.ref, Append(path, Elems(inst)[k]))
                  ELSE {<<Append(path, Elems(inst)[k]), inst.of.ref>>}
                : k \in 1..Len(Elems(inst)) } : inst \in Range(m.insts) }

(* parameter values the designer gave to leaf devices (instances carrying a `pv` field: a sequence of <<name, integer>>): every element of
   an array / pair is the same device with the same parameters *)
RECURSIVE LeafParams(_, _, _)
LeafParams(D, mn, path) ==
  LET m == D.mods[mn] IN
  UNION { UNION { IF inst.of.k = "mod" THEN LeafParams(D, inst.of.ref, Append(path, Elems(inst)[k]))
                  ELSE IF "pv" \in DOMAIN inst THEN {<<Append(path, Elems(inst)[k]), {<<inst.pv[j][1], inst.pv[j][2]>> : j \in 1..Len(inst.pv)}>>} ELSE {}
                : k \in 1..Len(Elems(inst)) } : inst \in Range(m.insts) }
=============================================================================
