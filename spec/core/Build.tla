-------------------------------- MODULE Build --------------------------------
(***************************************************************************)
(* Connection operations on the ports of instances (property C04).         *)
(*                                                                         *)
(* State: conns : port -> value ("none" when unconnected), exactly the     *)
(* `Instance.conns` dictionaries of the implementation.  One action per    *)
(* public operation; connect-by-call, connect-by-assignment and connect()  *)
(* are the same action (the driver varies the spelling).                   *)
(*   Connect(p, v)    last connection wins                                 *)
(*   Replace(p, v)    as Connect, but refused when p is unconnected        *)
(*   Disconnect(p)    refused when p is unconnected                        *)
(*   Read(p)          evaluating `inst.port` (hands out a reference):      *)
(*                    no effect on the mapping                             *)
(* Apply returns the next mapping and whether the call must raise.         *)
(***************************************************************************)
EXTENDS Integers, Sequences, FiniteSets, TLC

None == "none"
Apply(c, o) ==
  CASE o.op = "connect"    -> [c |-> [c EXCEPT ![o.port] = o.val], raised |-> FALSE]
    [] o.op = "replace"    -> IF c[o.port] = None THEN [c |-> c, raised |-> TRUE]
                              ELSE [c |-> [c EXCEPT ![o.port] = o.val], raised |-> FALSE]
    [] o.op = "disconnect" -> IF c[o.port] = None THEN [c |-> c, raised |-> TRUE]
                              ELSE [c |-> [c EXCEPT ![o.port] = None], raised |-> FALSE]
    [] o.op = "read"       -> [c |-> c, raised |-> FALSE]
=============================================================================
