------------------------------- MODULE Netlist -------------------------------
(***************************************************************************)
(* The meaning of a SPICE-format netlist as a simulator reads it - by      *)
(* POSITION: the k-th net on an instance line is tied to the k-th port of  *)
(* the sub-circuit the line names.  Used to check, on real netlists, the   *)
(* reading convention that Package!PkgDenote assumes (a bus, a slice and   *)
(* the parts of a concatenation laid out most-significant first).          *)
(*                                                                         *)
(* N == [ subs : name -> [ports : Seq(net name),                           *)
(*                        insts : Seq([n, nets : Seq(net name), of])],     *)
(*        top : name ]          ("" when no netlist was produced)          *)
(* An instance of something the netlist does not define is a leaf; its     *)
(* terminals are, in order, the bits of its declared ports (P.leaves),     *)
(* most-significant first.  Nets are scalars named by strings, local to    *)
(* their sub-circuit.                                                      *)
(***************************************************************************)
EXTENDS Package

NNet(path, n) == <<path, "n", n, 0>>
RECURSIVE Expand(_)
Expand(ports) == IF ports = <<>> THEN <<>>
                 ELSE [b \in 1..Head(ports).w |-> <<Head(ports).n, Head(ports).w - b>>] \o Expand(Tail(ports))

RECURSIVE NArityOk(_, _, _)
NArityOk(N, leaves, sn) ==
  \A inst \in PRange(N.subs[sn].insts) :
     IF inst.of \in DOMAIN N.subs THEN Len(inst.nets) = Len(N.subs[inst.of].ports) /\ NArityOk(N, leaves, inst.of)
     ELSE inst.of \in DOMAIN leaves /\ Len(inst.nets) = Len(Expand(leaves[inst.of]))

RECURSIVE NEdges(_, _, _, _)
NEdges(N, leaves, sn, path) ==
  UNION { LET ip == Append(path, inst.n) IN
          IF inst.of \in DOMAIN N.subs
          THEN { << NNet(ip, N.subs[inst.of].ports[k]), NNet(path, inst.nets[k]) >> : k \in 1..Len(inst.nets) }
               \cup NEdges(N, leaves, inst.of, ip)
          ELSE LET T == Expand(leaves[inst.of]) IN
               { << <<ip, "s", T[k][1], T[k][2]>>, NNet(path, inst.nets[k]) >> : k \in 1..Len(inst.nets) }
        : inst \in PRange(N.subs[sn].insts) }

(* the top sub-circuit's header against the package's top-level ports *)
NTopPorts(P) == LET m == P.mods[P.top] IN Expand([k \in 1..Len(m.ports) |-> [n |-> m.ports[k].n, w |-> PSigW(m, m.ports[k].n)]])
NTopEdges(N, P) == LET T == NTopPorts(P)  H == N.subs[N.top].ports IN
                   { << <<<<>>, "s", T[k][1], T[k][2]>>, NNet(<<>>, H[k]) >> : k \in 1..Len(T) }

(* first way in which netlist N fails to describe the circuit of package P ("" if it does) *)
NetlistDiff(N, P) ==
  IF N.top \notin DOMAIN N.subs THEN "netlist_has_no_top"
  ELSE IF Len(N.subs[N.top].ports) # Len(NTopPorts(P)) THEN "netlist_top_ports"
  ELSE IF ~NArityOk(N, P.leaves, N.top) THEN "netlist_arity"
  ELSE IF ObsPartition(NEdges(N, P.leaves, N.top, <<>>) \cup NTopEdges(N, P), PObservables(P)) # PkgDenote(P) THEN "netlist_partition"
  ELSE ""
=============================================================================
