------------------------------ MODULE SliceSem ------------------------------
(***************************************************************************)
(* C03: what an hdl21 index / slice / concatenation expression selects.    *)
(*                                                                         *)
(* Expr  ==  [k:"sig"|"pref"|"bref", n, w]        leaf of width w          *)
(*        |  [k:"slice", of: Expr, idx]                                    *)
(*        |  [k:"cat", parts: Seq(Expr)]          parts[1] = lowest bits   *)
(* A bit is <<signal name, position>>.  The name of the signal behind a    *)
(* leaf follows the documented naming: a port reference `inst.p` becomes   *)
(* `inst_p`, a bundle reference `b.x` becomes `b_x`.                       *)
(***************************************************************************)
EXTENDS PySeq

LeafName(l) == CASE l.k = "sig" -> l.n [] l.k = "pref" -> l.n \o "_p" [] l.k = "bref" -> l.n \o "_x"

RECURSIVE Bits(_)
Bits(x) ==
  CASE x.k \in {"sig", "pref", "bref"} -> [b \in 1..x.w |-> <<LeafName(x), b - 1>>]
    [] x.k = "slice" -> Sel(Bits(x.of), x.idx)
    [] x.k = "cat"   -> Flat([p \in 1..Len(x.parts) |-> Bits(x.parts[p])])

(* Classification.  "ok": must be accepted and select Bits(x).  "reject": must raise, at the latest
   at elaboration.  "either": may be rejected, but if accepted must select Bits(x). *)
Worse(a, b) == IF a = "reject" \/ b = "reject" THEN "reject"
               ELSE IF a = "either" \/ b = "either" THEN "either" ELSE "ok"

IdxClass(n, idx) ==
  IF idx.k = "int" THEN (IF IntInRange(n, idx.i) THEN "ok" ELSE "reject")
  ELSE IF Len(Positions(n, idx)) = 0 THEN "reject"
  ELSE IF BoundsWithin(n, idx) /\ UnitStep(idx) THEN "ok"
  ELSE "either"

RECURSIVE Class(_)
RECURSIVE FoldClass(_, _, _)
FoldClass(parts, k, acc) == IF k > Len(parts) THEN acc ELSE FoldClass(parts, k + 1, Worse(acc, Class(parts[k])))
Class(x) ==
  CASE x.k \in {"sig", "pref", "bref"} -> "ok"
    [] x.k = "slice" -> LET c == Class(x.of) IN
                        IF c = "reject" THEN "reject" ELSE Worse(c, IdxClass(Len(Bits(x.of)), x.idx))
    [] x.k = "cat"   -> FoldClass(x.parts, 1, "ok")
=============================================================================
