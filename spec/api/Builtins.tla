------------------------------ MODULE Builtins ------------------------------
(***************************************************************************)
(* C19: the documented topologies of the built-in generators, written as   *)
(* source designs in the vocabulary of Design.tla (so that Design!Denote    *)
(* gives their meaning).                                                   *)
(*                                                                         *)
(* SeriesDesign(U, of, ports, a, b, n):  n instances units_0 .. units_(n-1) *)
(* of the unit `of` (whose definition, if a module, is in design U);        *)
(* unit 0's port a and unit n-1's port b are the module's ports a and b;    *)
(* unit k's b and unit k+1's a share the private net i[k]; every other      *)
(* port is wired in parallel to the same-named module port.                 *)
(* WrapperDesign(U, of, ports): one instance `inner`, every port wired to   *)
(* the same-named module port.                                              *)
(***************************************************************************)
EXTENDS Integers, Sequences, TLC

IntIdx(i) == [k |-> "int", i |-> i, hs |-> FALSE, s |-> 0, he |-> FALSE, e |-> 0, ht |-> FALSE, t |-> 0]
SigT(n) == [k |-> "sig", n |-> n]
BitOf(n, w, i) == IF w = 1 THEN SigT(n) ELSE [k |-> "slice", of |-> SigT(n), idx |-> IntIdx(i)]

WithTop(U, name, m) == [U EXCEPT !.mods = [x \in DOMAIN U.mods \cup {name} |-> IF x = name THEN m ELSE U.mods[x]], !.top = name]

SeriesDesign(U, of, ports, a, b, n, names) ==      \* names: the n unit-instance names (the property does not fix them)
  LET unitconn(k, p) ==        \* k = 0..n-1
        IF p.n = a THEN (IF k = 0 THEN SigT(a) ELSE BitOf("$series", n - 1, k - 1))
        ELSE IF p.n = b THEN (IF k = n - 1 THEN SigT(b) ELSE BitOf("$series", n - 1, k))
        ELSE SigT(p.n)
      insts == [k \in 1..n |-> [n |-> names[k], kind |-> "inst", arr |-> 0, of |-> of,
                                conns |-> [j \in 1..Len(ports) |-> [p |-> ports[j].n, t |-> unitconn(k - 1, ports[j])]]]]
      sigs == [j \in 1..Len(ports) |-> [n |-> ports[j].n, w |-> ports[j].w, port |-> TRUE, dir |-> "NONE"]]
              \o (IF n > 1 THEN <<[n |-> "$series", w |-> n - 1, port |-> FALSE, dir |-> "NONE"]>> ELSE <<>>)
  IN WithTop(U, "SeriesTop", [name |-> "SeriesTop", sigs |-> sigs, bundles |-> <<>>, insts |-> insts])

WrapperDesign(U, of, ports, bports, names) ==
  LET insts == <<[n |-> names[1], kind |-> "inst", arr |-> 0, of |-> of,
                  conns |-> [j \in 1..Len(ports) |-> [p |-> ports[j].n, t |-> SigT(ports[j].n)]]
                            \o [j \in 1..Len(bports) |-> [p |-> bports[j].n, t |-> [k |-> "bund", n |-> bports[j].n]]]]>>
      sigs == [j \in 1..Len(ports) |-> [n |-> ports[j].n, w |-> ports[j].w, port |-> TRUE, dir |-> "NONE"]]
      bnds == [j \in 1..Len(bports) |-> [n |-> bports[j].n, of |-> bports[j].of, port |-> TRUE, flipped |-> FALSE, role |-> ""]]
  IN WithTop(U, "WrapperTop", [name |-> "WrapperTop", sigs |-> sigs, bundles |-> bnds, insts |-> insts])
=============================================================================
