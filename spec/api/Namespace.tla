------------------------------ MODULE Namespace ------------------------------
(***************************************************************************)
(* The HDL namespace of an hdl21 `Module` or `Bundle` (property C18).      *)
(*                                                                         *)
(* Abstract state  s = [ns, elab]                                          *)
(*   ns   : a function from the names currently bound to [id, kind];       *)
(*          `id` is the identity of the bound object (the sequence number  *)
(*          of the operation that created it)                              *)
(*   elab : TRUE once the container has been elaborated (frozen)           *)
(*                                                                         *)
(* One operator per public operation; each returns the next state and      *)
(* whether the call must be rejected with an exception.  Parameters:       *)
(*   Reserved : names that may never be bound                              *)
(*   ViewOf   : kind -> name of the per-kind view that must list it        *)
(* The spec is written from the documentation of Module/Bundle: `add` and  *)
(* attribute assignment are the same insertion; a name starting with "_"   *)
(* is private Python data and never part of the HDL namespace.             *)
(***************************************************************************)
EXTENDS Integers, Sequences, FiniteSets, TLC

IsPrivate(n) == n \in {"_p", "_q"}            \* the private names of the alphabets used

Empty == [ns |-> <<>>, elab |-> FALSE]

Bound(s) == DOMAIN s.ns

Reject(s) == [st |-> s, raised |-> TRUE]
Keep(s)   == [st |-> s, raised |-> FALSE]
Bind(s, n, k, id) ==
  [st |-> [s EXCEPT !.ns = [x \in (DOMAIN s.ns) \cup {n} |-> IF x = n THEN [id |-> id, kind |-> k] ELSE s.ns[x]]],
   raised |-> FALSE]

(* m.<n> = <new object of kind k>  *)
SetAttr(s, Reserved, n, k, id) ==
  IF IsPrivate(n) THEN Keep(s)                         \* ordinary Python attribute, never HDL content
  ELSE IF n \in Reserved \/ k = "nonhdl" \/ s.elab THEN Reject(s)
  ELSE Bind(s, n, k, id)

(* m.add(obj, name=...)   mode: which of the two name sources is given
     "kw"    - only the name= argument          "named" - only obj.name
     "both"  - both (must be rejected)          "none"  - neither (must be rejected)   *)
Add(s, Reserved, n, k, mode, id) ==
  IF k = "nonhdl" \/ mode \in {"both", "none"} \/ s.elab \/ n \in Reserved THEN Reject(s)
  ELSE Bind(s, n, k, id)

Get(s, n) == IF n \in DOMAIN s.ns THEN s.ns[n].id ELSE -1

Apply(s, Reserved, o, id) ==
  CASE o.op = "setattr" -> SetAttr(s, Reserved, o.name, o.kind, id)
    [] o.op = "add"     -> Add(s, Reserved, o.name, o.kind, o.mode, id)
    [] o.op = "get"     -> Keep(s)
    [] o.op = "readd"   -> Keep(s)      \* the object already bound to o.name is assigned / added again under that name:
                                        \* nothing may change (whether the call is accepted or refused is left open)
    [] o.op = "mulinst" -> Reject(s)    \* n * inst of an Instance the module already holds, assigned to o.name: refused, nothing changes
    [] o.op = "extfromports" -> Keep(s) \* an ExternalModule built from Signal objects of this (and another) module: none of their business
    [] o.op = "alias"   -> Reject(s)    \* the object bound to o.mode is assigned to ANOTHER name o.name: an attribute has a single name; refused,
                                        \* nothing changes (else one object sits under two names and is exported twice)
    [] o.op = "del"     -> Reject(s)
    [] o.op = "subclass"-> Reject(s)
    [] o.op = "elab"    -> [st |-> [s EXCEPT !.elab = TRUE], raised |-> FALSE]
    [] OTHER            -> Keep(s)

(* ---- what must be observable in state s ---------------------------------------- *)
NsPairs(s)        == {<<n, s.ns[n].id>> : n \in DOMAIN s.ns}
ViewPairs(s, ViewOf(_), v) == {<<n, s.ns[n].id>> : n \in {x \in DOMAIN s.ns : ViewOf(s.ns[x].kind) = v}}

(* Coherence as a predicate on an abstract *implementation* state
   I = [ns, views]  (used by MC_Namespace to model-check the insertion algorithm) *)
Coherent(I, Views) ==
  /\ \A v \in Views : \A p \in I.views[v] : p \in I.ns
  /\ \A p \in I.ns : Cardinality({v \in Views : p \in I.views[v]}) = 1
  /\ \A p, q \in I.ns : p[1] = q[1] => p = q
=============================================================================
