--------------------------------- MODULE Pdk ---------------------------------
(***************************************************************************)
(* C15.  (a) The PDK registry: registered modules, default, and what a     *)
(* compile request resolves to.  (b) The compile contract on packages      *)
(* exported before (P0) and after (P1) compilation.  (c) Device selection. *)
(***************************************************************************)
EXTENDS Integers, Sequences, FiniteSets, TLC

(* ---------- (a) registry ---------- *)
(* state [reg : set of PDK names, dflt : name or ""]; op [op, n] *)
R0 == [reg |-> {}, dflt |-> ""]
Resolve(s, how, n) ==      \* which PDK a compile request goes to, or "raise"
  CASE how = "none"   -> IF s.dflt # "" THEN s.dflt ELSE IF Cardinality(s.reg) = 1 THEN CHOOSE x \in s.reg : TRUE ELSE "raise"
    [] how = "name"   -> IF n \in s.reg THEN n ELSE "raise"
    [] how = "module" -> n
RApply(s, o) ==
  CASE o.op = "register"    -> [st |-> [s EXCEPT !.reg = @ \cup {o.n}], res |-> "ok"]
    [] o.op = "set_default" -> IF o.n \in s.reg THEN [st |-> [s EXCEPT !.dflt = o.n], res |-> "ok"] ELSE [st |-> s, res |-> "raise"]
    [] o.op = "compile"     -> [st |-> IF o.how = "module" THEN [s EXCEPT !.reg = @ \cup {o.n}] ELSE s, res |-> Resolve(s, o.how, o.n)]

(* ---------- (c) selection ---------- *)
(* table entry: [kind, key, tp, fam, vth, dev, ports]; request: [prim, nports, by, model, tp, fam, vth] *)
KindOf(prim) == CASE prim = "Mos" -> "mos" [] prim \in {"PhysicalResistor", "ThreeTerminalResistor"} -> "res"
                  [] prim \in {"PhysicalCapacitor", "ThreeTerminalCapacitor"} -> "cap" [] prim = "Diode" -> "diode" [] prim = "Bipolar" -> "bjt" [] OTHER -> "none"
Candidates(table, q) ==
  IF q.by = "model" THEN {e \in table : e.kind = KindOf(q.prim) /\ e.key = q.model}
  ELSE {e \in table : e.kind = "mos" /\ e.tp = q.tp /\ (e.fam = "ANY" \/ e.fam = q.fam) /\ (e.vth = "ANY" \/ e.vth = q.vth)}
(* a device satisfies the request only if it has the generic primitive's terminals *)
Satisfying(table, q) == {e \in Candidates(table, q) : e.ports = q.ports}

(* ---------- (b) contract ---------- *)
FirstNonEmpty(s) == LET B == {k \in DOMAIN s : s[k] # ""} IN IF B = {} THEN "" ELSE s[CHOOSE k \in B : \A j \in B : k <= j]
IsMapped(ref, mapped) == ref[1] = "external" /\ ref[2] = "hdl21.primitives" /\ ref[3] \in mapped

InstContract(mn, a, b, domain, mapped, table, reqs) ==
  IF a.name # b.name THEN "instance_renamed:" \o mn
  ELSE IF [k \in 1..Len(a.conns) |-> a.conns[k]] # [k \in 1..Len(b.conns) |-> b.conns[k]] THEN "connections_changed:" \o mn \o "." \o a.name
  ELSE IF ~IsMapped(a.ref, mapped) THEN (IF a.ref # b.ref \/ a.params # b.params THEN "unmapped_instance_changed:" \o mn \o "." \o a.name ELSE "")
  ELSE LET key == mn \o "." \o a.name IN
       IF key \notin DOMAIN reqs THEN (IF b.ref[1] # "external" \/ b.ref[2] # domain THEN "not_compiled:" \o key ELSE "")
       ELSE LET sat == Satisfying(table, reqs[key]) IN
            IF b.ref[1] # "external" \/ b.ref[2] # domain THEN "not_compiled:" \o key
            ELSE IF b.ref[3] \notin {e.dev : e \in sat} THEN "wrong_device:" \o key
            ELSE ""

ModContract(a, b, domain, mapped, table, reqs) ==
  IF a.ports # b.ports THEN "ports_changed:" \o a.name
  ELSE IF a.sigs # b.sigs THEN "signals_changed:" \o a.name
  ELSE IF Len(a.insts) # Len(b.insts) THEN "instance_count:" \o a.name
  ELSE FirstNonEmpty([k \in 1..Len(a.insts) |-> InstContract(a.name, a.insts[k], b.insts[k], domain, mapped, table, reqs)])

CompileDiff(P0, P1, domain, mapped, table, reqs) ==
  IF [k \in 1..Len(P0.mods) |-> P0.mods[k].name] # [k \in 1..Len(P1.mods) |-> P1.mods[k].name] THEN "hierarchy_changed"
  ELSE FirstNonEmpty([k \in 1..Len(P0.mods) |-> ModContract(P0.mods[k], P1.mods[k], domain, mapped, table, reqs)])

(* sizing: each sizing role (w, l, mult, nf) the device has carries the given value, or else the PDK's default ("" = the PDK states none) *)
Want(z, r) == IF z.given[r] # "" THEN z.given[r] ELSE z.dflt[r]
SizeFault(key, z) ==
  LET R == {r \in {"w", "l", "mult", "nf"} : \E k \in DOMAIN z.roles : z.roles[k] = r}
      B == {r \in R : Want(z, r) # "" /\ z.got[r] # Want(z, r)} IN
  IF B = {} THEN "" ELSE LET r == CHOOSE x \in B : TRUE IN
       (IF z.given[r] # "" THEN "given_size_not_used:" ELSE "default_size_not_used:") \o key \o "." \o r
SizeFaults(sizes) == LET B == {k \in DOMAIN sizes : SizeFault(k, sizes[k]) # ""} IN
  IF B = {} THEN "" ELSE SizeFault(CHOOSE k \in B : TRUE, sizes[CHOOSE k \in B : TRUE])

(* must the compilation be refused?  yes iff some request has no satisfying device *)
MustRaise(table, reqs) == \E k \in DOMAIN reqs : Satisfying(table, reqs[k]) = {}
(* a request that several devices satisfy equally may be refused as not well defined, or answered with any of them *)
MayRaise(table, reqs) == \E k \in DOMAIN reqs : Cardinality(Satisfying(table, reqs[k])) # 1
=============================================================================
