------------------------------- MODULE Params -------------------------------
(***************************************************************************)
(* C13: how a parameter value given to a primitive / external module must  *)
(* appear on the exported instance.                                        *)
(*                                                                         *)
(* Input value descriptors (what the designer wrote):                      *)
(*   [k:"none"]  [k:"str", b]  [k:"enum", b]  [k:"literal", b]             *)
(*   [k:"int", neg, d]   [k:"float", hex (bytes of float.hex)]             *)
(*   [k:"decimal", b (bytes of its text)]                                  *)
(*   [k:"prefixed", neg, d, e, p]   mantissa (-1)^neg*d*10^e, prefix 10^p  *)
(*   [k:"toscalar", b]  a Scalar-typed field given text b (the value as    *)
(*                      written: a numeric literal or any other string)    *)
(* Text is a sequence of bytes b.  Exported values:                        *)
(*   [v:"absent"] [v:"literal", b] [v:"int64", neg, d] [v:"double", hex]   *)
(*   [v:"prefixed", prefix (enum name), num:"int64"|"string", neg, d, b]   *)
(***************************************************************************)
EXTENDS BigNum

PrefixName(p) ==
  CASE p = -24 -> "YOCTO" [] p = -21 -> "ZEPTO" [] p = -18 -> "ATTO" [] p = -15 -> "FEMTO" [] p = -12 -> "PICO"
    [] p = -9 -> "NANO" [] p = -6 -> "MICRO" [] p = -3 -> "MILLI" [] p = -2 -> "CENTI" [] p = -1 -> "DECI"
    [] p = 0 -> "UNIT" [] p = 1 -> "DECA" [] p = 2 -> "HECTO" [] p = 3 -> "KILO" [] p = 6 -> "MEGA"
    [] p = 9 -> "GIGA" [] p = 12 -> "TERA" [] p = 15 -> "PETA" [] p = 18 -> "EXA" [] p = 21 -> "ZETTA" [] p = 24 -> "YOTTA"
    [] OTHER -> "?"

(* ---------- decimal text: [+-]digits[.digits][(e|E)[+-]digits] ---------- *)
IsDigit(c) == c >= 48 /\ c <= 57
RECURSIVE TakeDigits(_, _)       \* number of leading digit bytes of s from position k
TakeDigits(s, k) == IF k <= Len(s) /\ IsDigit(s[k]) THEN 1 + TakeDigits(s, k + 1) ELSE 0
DigitsLE(s, from, n) == [j \in 1..n |-> s[from + n - j] - 48]       \* least significant first
RECURSIVE ToInt(_, _, _)
ToInt(s, from, n) == IF n = 0 THEN 0 ELSE ToInt(s, from, n - 1) * 10 + (s[from + n - 1] - 48)
(* returns [ok, v] ; v a BigNum decimal *)
ParseDec(s) ==
  LET sg   == IF Len(s) > 0 /\ s[1] \in {43, 45} THEN 1 ELSE 0
      neg  == sg = 1 /\ s[1] = 45
      ni   == TakeDigits(s, sg + 1)
      p1   == sg + ni + 1
      dot  == p1 <= Len(s) /\ s[p1] = 46
      nf   == IF dot THEN TakeDigits(s, p1 + 1) ELSE 0
      p2   == IF dot THEN p1 + 1 + nf ELSE p1
      hasE == p2 <= Len(s) /\ s[p2] \in {69, 101}
      esg  == IF hasE /\ p2 + 1 <= Len(s) /\ s[p2 + 1] \in {43, 45} THEN 1 ELSE 0
      eneg == esg = 1 /\ s[p2 + 1] = 45
      ne   == IF hasE THEN TakeDigits(s, p2 + 1 + esg) ELSE 0
      endp == IF hasE THEN p2 + 1 + esg + ne ELSE p2
      ok   == (ni + nf > 0) /\ (hasE => (ne > 0 /\ ne <= 4)) /\ endp = Len(s) + 1
      ev   == IF hasE /\ ok THEN (IF eneg THEN -1 ELSE 1) * ToInt(s, p2 + 1 + esg, ne) ELSE 0
      digs == IF ok THEN DigitsLE(s, p1 + 1, nf) \o DigitsLE(s, sg + 1, ni) ELSE <<>>
  IN [ok |-> ok, v |-> IF ok THEN Canon([neg |-> neg, d |-> Trim(digs), e |-> ev - nf]) ELSE Zero]

IsIntegral(x) == Canon(x).e >= 0
IntDigits(x) == LET c == Canon(x) IN ShiftUp(c.d, c.e)       \* magnitude digits of an integral decimal

Two63 == <<8, 0, 8, 5, 7, 7, 4, 5, 8, 6, 3, 0, 2, 7, 3, 3, 2, 2, 9>>       \* 9223372036854775808, least significant digit first
Fits64(x) == LET c == Canon(x)  mag == IntDigits(c) IN IF c.neg THEN CmpMag(mag, Two63) <= 0 ELSE CmpMag(mag, Two63) < 0

(* does exported value `out` faithfully carry the prefixed number mantissa m (a decimal) with prefix exponent p? *)
PrefixedOk(out, m, p) ==
  /\ out.v = "prefixed" /\ out.prefix = PrefixName(p)
  /\ IF IsIntegral(m) /\ Fits64(m)
     THEN out.num = "int64" /\ Eq([neg |-> out.neg, d |-> out.d, e |-> 0], m)
     ELSE out.num = "string" /\ ParseDec(out.b).ok /\ Eq(ParseDec(out.b).v, m)

Faithful(inp, out) ==
  CASE inp.k = "none"    -> out.v = "absent"
    [] inp.k \in {"str", "enum", "literal", "decimal"} -> out.v = "literal" /\ out.b = inp.b
    [] inp.k = "int"     -> out.v = "int64" /\ Eq([neg |-> out.neg, d |-> out.d, e |-> 0], [neg |-> inp.neg, d |-> inp.d, e |-> 0])
    [] inp.k = "float"   -> out.v = "double" /\ out.hex = inp.hex
    [] inp.k = "prefixed"-> PrefixedOk(out, [neg |-> inp.neg, d |-> inp.d, e |-> inp.e], inp.p)
    [] inp.k = "toscalar"-> LET q == ParseDec(inp.b) IN
                            IF q.ok THEN PrefixedOk(out, q.v, 0) ELSE out.v = "literal" /\ out.b = inp.b

(* ideal primitives: hdl21 name -> vlsir.primitives name ; PulseVoltageSource parameter renaming *)
IdealName(n) ==
  CASE n = "DcVoltageSource" -> "vdc" [] n = "PulseVoltageSource" -> "vpulse" [] n = "SineVoltageSource" -> "vsin"
    [] n = "CurrentSource" -> "isource" [] n = "IdealResistor" -> "resistor" [] n = "IdealCapacitor" -> "capacitor"
    [] n = "IdealInductor" -> "inductor" [] n = "VoltageControlledVoltageSource" -> "vcvs"
    [] n = "CurrentControlledVoltageSource" -> "ccvs" [] n = "VoltageControlledCurrentSource" -> "vccs"
    [] n = "CurrentControlledCurrentSource" -> "cccs" [] OTHER -> "?"
ParamName(prim, field) ==
  IF prim = "PulseVoltageSource" THEN
     (CASE field = "delay" -> "td" [] field = "rise" -> "tr" [] field = "fall" -> "tf" [] field = "width" -> "tpw"
        [] field = "period" -> "tper" [] OTHER -> field)
  ELSE field
=============================================================================
