------------------------------ MODULE RoundTrip ------------------------------
(***************************************************************************)
(* C11: a package P and the package P2 obtained by importing P with        *)
(* from_proto and exporting the imported modules again must be equal:      *)
(* same modules in the same order with the same ports (order, direction,   *)
(* width), signals, instances (reference, parameter names and values,      *)
(* connections with slices and concatenations), external modules (port     *)
(* order, spice type) and literals.  Diff names the first component that   *)
(* differs ("" if none).                                                   *)
(***************************************************************************)
EXTENDS Integers, Sequences, TLC

ModNames(P) == [k \in 1..Len(P.mods) |-> P.mods[k].name]
ExtNames(P) == [k \in 1..Len(P.exts) |-> <<P.exts[k].domain, P.exts[k].name>>]

InstDiff(mn, a, b) ==
  IF a.name # b.name THEN "instance_name:" \o mn
  ELSE IF a.ref # b.ref THEN "instance_reference:" \o mn \o "." \o a.name
  ELSE IF [k \in 1..Len(a.params) |-> a.params[k].name] # [k \in 1..Len(b.params) |-> b.params[k].name] THEN "parameter_names:" \o mn \o "." \o a.name
  ELSE IF a.params # b.params THEN "parameter_values:" \o mn \o "." \o a.name
  ELSE IF [k \in 1..Len(a.conns) |-> a.conns[k][1]] # [k \in 1..Len(b.conns) |-> b.conns[k][1]] THEN "connection_ports:" \o mn \o "." \o a.name
  ELSE IF a.conns # b.conns THEN "connection_targets:" \o mn \o "." \o a.name
  ELSE ""

FirstNonEmpty(s) == LET B == {k \in DOMAIN s : s[k] # ""} IN IF B = {} THEN "" ELSE s[CHOOSE k \in B : \A j \in B : k <= j]

ModDiff(a, b) ==
  IF a.ports # b.ports THEN "ports:" \o a.name
  ELSE IF a.sigs # b.sigs THEN "signals:" \o a.name
  ELSE IF Len(a.insts) # Len(b.insts) THEN "instance_count:" \o a.name
  ELSE LET d == FirstNonEmpty([k \in 1..Len(a.insts) |-> InstDiff(a.name, a.insts[k], b.insts[k])]) IN
       IF d # "" THEN d
       ELSE IF a.literals # b.literals THEN "literals:" \o a.name ELSE ""

ExtDiff(a, b) ==
  IF a.ports # b.ports THEN "external_ports:" \o a.name
  ELSE IF a.sigs # b.sigs THEN "external_signals:" \o a.name
  ELSE IF a.spicetype # b.spicetype THEN "external_spicetype:" \o a.name
  ELSE ""

Diff(P, Q) ==
  IF P.domain # Q.domain THEN "domain"
  ELSE IF ModNames(P) # ModNames(Q) THEN "module_list"
  ELSE IF ExtNames(P) # ExtNames(Q) THEN "external_module_list"
  ELSE LET d == FirstNonEmpty([k \in 1..Len(P.mods) |-> ModDiff(P.mods[k], Q.mods[k])]) IN
       IF d # "" THEN d ELSE FirstNonEmpty([k \in 1..Len(P.exts) |-> ExtDiff(P.exts[k], Q.exts[k])])
=============================================================================
