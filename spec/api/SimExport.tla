------------------------------ MODULE SimExport ------------------------------
(***************************************************************************)
(* C17: what exporting a Sim must produce.                                 *)
(*                                                                         *)
(* Abstract Sim attribute (what the designer wrote), uniform record:       *)
(*   [k, name, hasname, var, sweep, inner, x1, x2, n, text, text2, form,   *)
(*    items]                                                               *)
(*   k \in {"op","dc","ac","tran","noise","sweep","monte","custom",        *)
(*          "save","meas","include","lib","param","literal","options"}     *)
(*   numbers x1, x2 and sweep fields are exact decimals (BigNum) with a    *)
(*   presence flag; a sweep is [k: "linear"|"log"|"points"|"none", start,  *)
(*   stop, step, npts, points].                                            *)
(* Exported entries are the same records with every number replaced by     *)
(* [f, lo, hi] : the double written and its two neighbours, exactly.       *)
(* Rules: analyses, controls and options go to three lists, each in the    *)
(* original order; names, expressions, paths, sweep kinds are kept; every  *)
(* number is the nearest double; unnamed analyses get names distinct from  *)
(* every other analysis name; nested analyses are kept inside their parent.*)
(* (Names the user gave may repeat: that is not the exporter's doing.)     *)
(***************************************************************************)
EXTENDS BigNum, FiniteSets, TLC

IsAnalysis(a) == a.k \in {"op", "dc", "ac", "tran", "noise", "sweep", "monte", "custom"}
IsOption(a)   == a.k = "options"
IsControl(a)  == ~IsAnalysis(a) /\ ~IsOption(a)

Sel_(s, P(_)) == SelectSeq(s, P)

Near(v, o) == LET df == Abs(Sub(o.f, v)) IN Cmp(df, Abs(Sub(o.lo, v))) <= 0 /\ Cmp(df, Abs(Sub(o.hi, v))) <= 0
NumOk(has, v, o) == IF has THEN Near(v, o) ELSE Eq(o.f, Zero)          \* an absent number is exported as 0.0

SweepOk(s, o) ==
  /\ s.k = o.k
  /\ CASE s.k = "linear" -> NumOk(TRUE, s.start, o.start) /\ NumOk(TRUE, s.stop, o.stop) /\ NumOk(TRUE, s.step, o.step)
       [] s.k = "log"    -> NumOk(TRUE, s.start, o.start) /\ NumOk(TRUE, s.stop, o.stop) /\ s.npts = o.npts
       [] s.k = "points" -> Len(s.points) = Len(o.points) /\ \A j \in 1..Len(s.points) : NumOk(TRUE, s.points[j], o.points[j])
       [] OTHER -> TRUE

RECURSIVE AnOk(_, _)
AnOk(a, o) ==
  /\ a.k = o.k
  /\ (a.hasname => o.name = a.name)
  /\ o.name # ""
  /\ CASE a.k = "dc"     -> o.var = a.var /\ SweepOk(a.sweep, o.sweep)
       [] a.k = "ac"     -> SweepOk(a.sweep, o.sweep)
       [] a.k = "tran"   -> NumOk(TRUE, a.x1, o.x1) /\ NumOk(a.hasx2, a.x2, o.x2)
       [] a.k = "noise"  -> o.text = a.text /\ o.text2 = a.text2 /\ SweepOk(a.sweep, o.sweep)
       [] a.k = "sweep"  -> o.var = a.var /\ SweepOk(a.sweep, o.sweep) /\ Len(o.inner) = Len(a.inner)
                            /\ \A j \in 1..Len(a.inner) : AnOk(a.inner[j], o.inner[j])
       [] a.k = "monte"  -> o.n = a.n /\ Len(o.inner) = Len(a.inner) /\ \A j \in 1..Len(a.inner) : AnOk(a.inner[j], o.inner[j])
       [] a.k = "custom" -> o.text = a.text
       [] OTHER -> TRUE

CtrlOk(a, o) ==
  /\ a.k = o.k
  /\ CASE a.k = "save"    -> o.form = (IF a.form \in {"all", "none"} THEN a.form ELSE "signal") /\ o.text = a.text
       [] a.k = "meas"    -> o.name = a.name /\ o.text = a.text /\ o.text2 = a.text2
       [] a.k = "include" -> o.text = a.text
       [] a.k = "lib"     -> o.text = a.text /\ o.text2 = a.text2
       [] a.k = "param"   -> o.name = a.name /\ Eq(o.val, a.x1)
       [] a.k = "literal" -> o.text = a.text
       [] OTHER -> TRUE

OptOk(a, o) == o.name = a.name /\ (IF a.form = "number" THEN (o.form = "number" /\ Eq(o.val, a.x1)) ELSE (o.form = "text" /\ o.text = a.text))

RECURSIVE Names(_)
Names(ans) == IF ans = <<>> THEN <<>> ELSE <<Head(ans).name>> \o Names(Head(ans).inner) \o Names(Tail(ans))
Distinct(s) == Cardinality({s[j] : j \in DOMAIN s}) = Len(s)
(* the same traversal over the abstract analyses: was the name given by the user? *)
RECURSIVE Given(_)
Given(ans) == IF ans = <<>> THEN <<>> ELSE <<Head(ans).hasname>> \o Given(Head(ans).inner) \o Given(Tail(ans))
(* a GENERATED name differs from every other analysis name; names the user gave are the user's business (one named analysis object may
   legitimately sit at the top level and inside several sweeps) *)
GeneratedDistinct(given, names) ==
  Len(given) # Len(names) \/ \A i, j \in DOMAIN names : (i # j /\ (~given[i] \/ ~given[j])) => names[i] # names[j]

(* first failing clause of an exported SimInput `out` for abstract sim `sim` ("" if none) *)
SimDiff(sim, out) ==
  LET ans == Sel_(sim.attrs, IsAnalysis)  ctrls == Sel_(sim.attrs, IsControl)  opts == Sel_(sim.attrs, IsOption) IN
  IF out.top # sim.tbname THEN "top"
  ELSE IF Cardinality({j \in DOMAIN out.pkgmods : out.pkgmods[j] = sim.tbname}) # 1 THEN "testbench_not_exactly_once_in_package"
  ELSE IF Len(out.an) # Len(ans) THEN "analysis_count"
  ELSE IF Len(out.ctrls) # Len(ctrls) THEN "control_count"
  ELSE IF Len(out.opts) # Len(opts) THEN "option_count"
  ELSE IF \E j \in 1..Len(ans) : ~AnOk(ans[j], out.an[j]) THEN "analysis:" \o ToString(CHOOSE j \in 1..Len(ans) : ~AnOk(ans[j], out.an[j]))
  ELSE IF \E j \in 1..Len(ctrls) : ~CtrlOk(ctrls[j], out.ctrls[j]) THEN "control:" \o ToString(CHOOSE j \in 1..Len(ctrls) : ~CtrlOk(ctrls[j], out.ctrls[j]))
  ELSE IF \E j \in 1..Len(opts) : ~OptOk(opts[j], out.opts[j]) THEN "option:" \o ToString(CHOOSE j \in 1..Len(opts) : ~OptOk(opts[j], out.opts[j]))
  ELSE IF ~GeneratedDistinct(Given(ans), Names(out.an)) THEN "analysis_names_not_distinct"
  ELSE ""
=============================================================================
