------------------------------ MODULE Prefixed ------------------------------
(***************************************************************************)
(* C14: the exact meaning of hdl21 `Prefixed` numbers.                     *)
(* A prefixed number is  [neg, d, e, p] : decimal mantissa (-1)^neg*d*10^e *)
(* with SI prefix exponent p; its value is the exact decimal Val(x).       *)
(***************************************************************************)
EXTENDS BigNum

PrefixExps == {-24, -21, -18, -15, -12, -9, -6, -3, -2, -1, 0, 1, 2, 3, 6, 9, 12, 15, 18, 21, 24}

Val(x) == Canon([neg |-> x.neg, d |-> x.d, e |-> x.e + x.p])
Dec(x) == Canon([neg |-> x.neg, d |-> x.d, e |-> x.e])

(* comparison tolerance, read in the implementation's favour: exact agreement is demanded only when
   the values differ by more than 1e-20 in units of the larger of the two prefixes and of the unit prefix *)
TolExp(a, b) == Max(Max(a.p, b.p), 0) - 20
Far(a, b) == Cmp(Abs(Sub(Val(a), Val(b))), [neg |-> FALSE, d |-> <<1>>, e |-> TolExp(a, b)]) > 0

(* the six comparison outcomes c = [lt, le, eq, ne, gt, ge] as "T" / "F" / "X" (raised) *)
Raised(c)   == \E k \in {"lt", "le", "eq", "ne", "gt", "ge"} : c[k] = "X"
T(c, k)     == c[k] = "T"
Relations(c) == /\ ((IF T(c, "lt") THEN 1 ELSE 0) + (IF T(c, "eq") THEN 1 ELSE 0) + (IF T(c, "gt") THEN 1 ELSE 0)) = 1
                /\ T(c, "le") = (T(c, "lt") \/ T(c, "eq"))
                /\ T(c, "ge") = (T(c, "gt") \/ T(c, "eq"))
                /\ T(c, "ne") = ~T(c, "eq")
Exact(c, a, b) == LET s == Cmp(Val(a), Val(b)) IN
                  /\ T(c, "lt") = (s < 0) /\ T(c, "eq") = (s = 0) /\ T(c, "gt") = (s > 0)

(* nearest float: f is the returned float, lo and hi its neighbours (all exact decimals) *)
Nearest(v, f, lo, hi) == LET df == Abs(Sub(f, v)) IN
                         /\ Cmp(df, Abs(Sub(lo, v))) <= 0
                         /\ Cmp(df, Abs(Sub(hi, v))) <= 0
=============================================================================
