SPECIFICATION Spec
CONSTANTS
  Names = {"a", "b"}
  Kinds = {"port", "signal", "bundle"}
  Reserved = {"signals", "roles", "props"}
  Views = {"signals", "bundles"}
  Depth = 3
  HasElab = FALSE
  IsModule = FALSE
INVARIANT AlgoCoherent
INVARIANT AlgoMatchesSpec
PROPERTY FrozenAfterElab
ACTION_CONSTRAINT Emit
