SPECIFICATION Spec
CONSTANT N = 120
INVARIANT AddOk
INVARIANT SubOk
INVARIANT MulOk
INVARIANT CmpOk
INVARIANT CanonOk
INVARIANT TruncOk
