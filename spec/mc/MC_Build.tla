------------------------------ MODULE MC_Build ------------------------------
(* All histories of Depth connection operations over the ports of two instances (each with a scalar port `a` and a
   bundle-valued port `bp`), every kind of connectable as the replaced and as the replacing value, completed by a canonical
   suffix that connects whatever is still unconnected.  Emits <<history, final mapping>> for replay. *)
EXTENDS Build, Json
CONSTANTS Depth
VARIABLES conns, hist, fin
vars == <<conns, hist, fin>>
Ports == {"i0.a", "i1.a", "i0.bp", "i1.bp"}
PortSeq == <<"i0.a", "i1.a", "i0.bp", "i1.bp">>
IsBundlePort(p) == p \in {"i0.bp", "i1.bp"}
ValsOf(p) == IF IsBundlePort(p) THEN {"b", "c", "anon", "dict", "pref", "anonp", "dictp"} ELSE {"s", "t", "bus0", "cat", "pref", "nc", "prefbit", "bref"}
Default(p) == IF IsBundlePort(p) THEN "b" ELSE "s"
O(op, p, v) == [op |-> op, port |-> p, val |-> v]
Ops == UNION {{O("connect", p, v) : v \in ValsOf(p)} : p \in Ports}
       \cup UNION {{O("replace", p, v) : v \in ValsOf(p) \ {"dict", "dictp"}} : p \in Ports}    \* the dict shorthand belongs to connect() only
       \cup {O("disconnect", p, "") : p \in Ports} \cup {O("read", p, "") : p \in Ports}
Init == conns = [p \in Ports |-> None] /\ hist = <<>> /\ fin = FALSE
Step == /\ ~fin /\ Len(hist) < Depth
        /\ \E o \in Ops : /\ conns' = Apply(conns, o).c /\ hist' = Append(hist, o) /\ fin' = FALSE
RECURSIVE Suffix(_, _)
Suffix(c, k) == IF k > Len(PortSeq) THEN <<>>
                ELSE IF c[PortSeq[k]] = None THEN <<O("connect", PortSeq[k], Default(PortSeq[k]))>> \o Suffix(c, k + 1)
                ELSE Suffix(c, k + 1)
Complete == /\ ~fin /\ Len(hist) = Depth
            /\ hist' = hist \o Suffix(conns, 1)
            /\ conns' = [p \in Ports |-> IF conns[p] = None THEN Default(p) ELSE conns[p]]
            /\ fin' = TRUE
Next == Step \/ Complete
Spec == Init /\ [][Next]_vars
Emit == IF fin' /\ ~fin THEN PrintT(<<"CASE", ToJson([hist |-> hist', final |-> [k \in 1..Len(PortSeq) |-> conns'[PortSeq[k]]]])>>) ELSE TRUE
(* model-level sanity: the mapping is total and type-correct at the end *)
FinalComplete == fin => \A p \in Ports : conns[p] \in ValsOf(p)
=============================================================================
