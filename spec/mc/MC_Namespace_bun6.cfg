SPECIFICATION Spec
CONSTANTS
  Names = {"a", "b"}
  Kinds = {"port", "signal", "bundle"}
  Reserved = {"signals", "roles", "props"}
  Views = {"signals", "bundles"}
  Depth = 6
  HasElab = FALSE
  IsModule = FALSE
ACTION_CONSTRAINT Emit
