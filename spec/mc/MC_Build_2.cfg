SPECIFICATION Spec
CONSTANT Depth = 2
INVARIANT FinalComplete
ACTION_CONSTRAINT Emit
