SPECIFICATION Spec
CONSTANT W = 4
INVARIANT RangeOk
INVARIANT IntOk
INVARIANT InBounds
