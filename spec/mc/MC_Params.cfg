SPECIFICATION Spec
INVARIANT Invariance
INVARIANT NegSym
INVARIANT Reject
