SPECIFICATION Spec
CONSTANTS
  Names = {"a", "b"}
  Kinds = {"port", "signal", "inst", "array", "pair", "bundle"}
  Reserved = {"ports"}
  Views = {"ports", "signals", "instances", "instarrays", "instbundles", "bundles"}
  Depth = 3
  HasElab = TRUE
  IsModule = TRUE
INVARIANT AlgoCoherent
INVARIANT AlgoMatchesSpec
PROPERTY FrozenAfterElab
ACTION_CONSTRAINT Emit
