SPECIFICATION Spec
CONSTANT N = 40
INVARIANT AddOk
INVARIANT SubOk
INVARIANT MulOk
INVARIANT CmpOk
INVARIANT CanonOk
INVARIANT TruncOk
