SPECIFICATION Spec
CONSTANTS
  Gens = {"GA", "GN", "GP", "GR"}
  Classes = {0, 1, 2}
  Kind <- KindDef
  Callee <- CalleeDef
  MayRaise = TRUE
  Spellings = {1, 2, 3}
  ClassOf <- ClassOfDef
  MaxCalls = 2
INVARIANT RunOnce
INVARIANT Distinct
INVARIANT NameInjective
INVARIANT NoStalePending
PROPERTY Memo
PROPERTY NameStable
