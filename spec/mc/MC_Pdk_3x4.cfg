SPECIFICATION Spec
CONSTANT Depth = 4
CONSTANT Pdks = {"pa", "pb", "pc"}
INVARIANT DefaultIsRegistered
ACTION_CONSTRAINT Emit
