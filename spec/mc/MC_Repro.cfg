SPECIFICATION RSpec
CONSTANTS
  Refs <- RefsDef
  Leaves <- LeavesDef
  Sorted = TRUE
INVARIANT Confluent
