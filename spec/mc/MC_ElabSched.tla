---------------------------- MODULE MC_ElabSched ----------------------------
(* Bounded instances of ElabSched over several module DAG shapes; the pass list (CacheOf, Kind) is written to MC_ElabSched_pass.tla
   by the harness from the RUNNING code (Elaborator.default().passes and the class that owns each pass's cache), so "the repeats
   share a cache with their first occurrence" is a configuration the model checks, not an assumption.  The call history is kept
   and emitted for replay. *)
EXTENDS ElabSched, Json, MC_ElabSched_pass
CONSTANT Shape
VARIABLE hist
vars == <<svars, hist>>
ModsDef == {"A", "B", "C", "D", "E"}
ChildrenDef ==
  CASE Shape = "chain"   -> [A |-> <<"B">>, B |-> <<"C">>, C |-> <<>>, D |-> <<>>, E |-> <<>>]
    [] Shape = "diamond" -> [A |-> <<"B", "C">>, B |-> <<"D">>, C |-> <<"D">>, D |-> <<>>, E |-> <<>>]
    [] Shape = "shared"  -> [A |-> <<"C", "D">>, B |-> <<"D", "E">>, C |-> <<"E">>, D |-> <<"E">>, E |-> <<>>]
    [] Shape = "twice"   -> [A |-> <<"B", "B", "C">>, B |-> <<"C">>, C |-> <<>>, D |-> <<"A", "C">>, E |-> <<>>]
    [] Shape = "cycle"   -> [A |-> <<"B">>, B |-> <<"C", "A">>, C |-> <<>>, D |-> <<"E", "D">>, E |-> <<>>]     \* A -> B -> A, and D -> D: not DAGs
TopListsDef ==
  CASE Shape = "chain"   -> {<<"A">>, <<"B">>, <<"C">>, <<"C", "A">>}
    [] Shape = "diamond" -> {<<"A">>, <<"B">>, <<"D">>, <<"C", "B">>, <<"A", "D">>}
    [] Shape = "shared"  -> {<<"A">>, <<"B">>, <<"E">>, <<"A", "B">>, <<"D", "C">>}
    [] Shape = "twice"   -> {<<"A">>, <<"D">>, <<"B">>, <<"C", "D">>}
    [] Shape = "cycle"   -> {<<"A">>, <<"B">>, <<"C">>, <<"D">>, <<"E">>, <<"C", "B">>, <<"E", "D">>}
Init == SInit /\ hist = <<>>
Next == \/ (\E tops \in TopLists : Call(tops) /\ hist' = Append(hist, tops))
        \/ (((\E m \in Mods : Edit(m)) \/ VisitChild \/ VisitTop \/ ApplyExit \/ FailAt \/ NextPass) /\ UNCHANGED hist)
Spec == Init /\ [][Next]_vars
(* termination: under weak fairness of the scheduler's own steps every call ends - returned or raised -, circular hierarchies included
   (the `Circular` decision is what makes that so); and nothing that sits on a cycle, or reaches one, is ever marked elaborated *)
LiveSpec == Spec /\ WF_vars((VisitChild \/ VisitTop \/ ApplyExit \/ NextPass) /\ UNCHANGED hist)
EveryCallEnds == [](call.active => <>(~call.active))
RECURSIVE ReachC(_, _)
ReachC(ms, fuel) == IF fuel = 0 THEN ms ELSE ReachC(ms \cup UNION {{Children[m][k] : k \in 1..Len(Children[m])} : m \in ms}, fuel - 1)
OnCycle(m) == m \in ReachC({Children[m][k] : k \in 1..Len(Children[m])}, Cardinality(Mods))
ReachesCycle(m) == \E x \in ReachC({m}, Cardinality(Mods)) : OnCycle(x)
CyclicNeverMarked == \A m \in marked : ~ReachesCycle(m)
Emit == IF ncalls' = MaxCalls /\ ncalls < MaxCalls THEN PrintT(<<"CASE", ToJson([shape |-> Shape, calls |-> hist'])>>) ELSE TRUE
=============================================================================
