---------------------------- MODULE MC_ElabSched ----------------------------
(* Bounded instances of ElabSched over several module DAG shapes; the pass list (CacheOf, Kind) is written to MC_ElabSched_pass.tla
   by the harness from the RUNNING code (Elaborator.default().passes and the class that owns each pass's cache), so "the repeats
   share a cache with their first occurrence" is a configuration the model checks, not an assumption.  The call history is kept
   and emitted for replay. *)
EXTENDS ElabSched, Json, MC_ElabSched_pass
CONSTANT Shape
VARIABLE hist
vars == <<svars, hist>>
ModsDef == {"A", "B", "C", "D", "E"}
ChildrenDef ==
  CASE Shape = "chain"   -> [A |-> <<"B">>, B |-> <<"C">>, C |-> <<>>, D |-> <<>>, E |-> <<>>]
    [] Shape = "diamond" -> [A |-> <<"B", "C">>, B |-> <<"D">>, C |-> <<"D">>, D |-> <<>>, E |-> <<>>]
    [] Shape = "shared"  -> [A |-> <<"C", "D">>, B |-> <<"D", "E">>, C |-> <<"E">>, D |-> <<"E">>, E |-> <<>>]
    [] Shape = "twice"   -> [A |-> <<"B", "B", "C">>, B |-> <<"C">>, C |-> <<>>, D |-> <<"A", "C">>, E |-> <<>>]
TopListsDef ==
  CASE Shape = "chain"   -> {<<"A">>, <<"B">>, <<"C">>, <<"C", "A">>}
    [] Shape = "diamond" -> {<<"A">>, <<"B">>, <<"D">>, <<"C", "B">>, <<"A", "D">>}
    [] Shape = "shared"  -> {<<"A">>, <<"B">>, <<"E">>, <<"A", "B">>, <<"D", "C">>}
    [] Shape = "twice"   -> {<<"A">>, <<"D">>, <<"B">>, <<"C", "D">>}
Init == SInit /\ hist = <<>>
Next == \/ (\E tops \in TopLists : Call(tops) /\ hist' = Append(hist, tops))
        \/ ((VisitChild \/ VisitTop \/ ApplyExit \/ FailAt \/ NextPass) /\ UNCHANGED hist)
Spec == Init /\ [][Next]_vars
Emit == IF ncalls' = MaxCalls /\ ncalls < MaxCalls THEN PrintT(<<"CASE", ToJson([shape |-> Shape, calls |-> hist'])>>) ELSE TRUE
=============================================================================
