SPECIFICATION Spec
CONSTANT Depth = 3
INVARIANT FinalComplete
ACTION_CONSTRAINT Emit
