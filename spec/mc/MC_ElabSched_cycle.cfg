SPECIFICATION LiveSpec
CONSTANTS
  Shape = "cycle"
  Mods <- ModsDef
  Children <- ChildrenDef
  NP <- NPDef
  CacheOf <- CacheOfDef
  Kind <- KindDef
  TopLists <- TopListsDef
  MaxCalls = 3
  MayFail = FALSE
INVARIANT AppliedInOrder
INVARIANT MarkedAreComplete
INVARIANT NoStalePending
INVARIANT CyclicNeverMarked
PROPERTY EveryCallEnds
