SPECIFICATION Spec
CONSTANTS
  Gens = {"GA", "GN", "GP", "GR"}
  Classes = {0, 1, 2}
  Kind <- KindDef
  Callee <- CalleeDef
  MayRaise = FALSE
  Spellings = {1, 2, 3, 4}
  ClassOf <- ClassOfDef
  MaxCalls = 6
ACTION_CONSTRAINT Emit
