------------------------------ MODULE MC_PySeq ------------------------------
(* Exhaustive self-check of lib/PySeq against an independent, set-based reading of the Python
   reference ("the items with index x = i + m*k such that 0 <= m < (j-i)/k", after the documented
   substitution of omitted / negative / too large bounds).  One state per (n, index). *)
EXTENDS PySeq, FiniteSets, TLC
CONSTANT W
VARIABLES n, idx
Bnd == -(2 * W)..(2 * W)
Idxs == [k : {"int"}, i : Bnd]
        \cup [k : {"range"}, hs : BOOLEAN, s : Bnd, he : BOOLEAN, e : Bnd, ht : BOOLEAN, t : (-W..W) \ {0}]
Init == n \in 1..W /\ idx \in Idxs
Next == UNCHANGED <<n, idx>>
Spec == Init /\ [][Next]_<<n, idx>>

(* independent reading *)
Eff(v, given, neg, isStart) ==
  IF ~given THEN (IF neg THEN (IF isStart THEN n - 1 ELSE -1) ELSE (IF isStart THEN 0 ELSE n))
  ELSE LET u == IF v < 0 THEN v + n ELSE v IN
       IF neg THEN (IF u < 0 THEN -1 ELSE IF u > n - 1 THEN n - 1 ELSE u)
              ELSE (IF u < 0 THEN 0 ELSE IF u > n THEN n ELSE u)
SelSet ==
  LET k == Step(idx)  neg == k < 0
      i == Eff(idx.s, idx.hs, neg, TRUE)  j == Eff(idx.e, idx.he, neg, FALSE)
  IN {x \in 0..(n - 1) : \E m \in 0..n : x = i + m * k /\ (IF neg THEN x > j ELSE x < j)}

RangeOk ==
  idx.k = "range" =>
    LET r == RangeIdx(n, idx) IN
    /\ {r[q] : q \in DOMAIN r} = SelSet
    /\ Len(r) = Cardinality(SelSet)
    /\ \A q \in 1..(Len(r) - 1) : r[q + 1] - r[q] = Step(idx)
IntOk == idx.k = "int" => LET p == Positions(n, idx) IN
           IF -n <= idx.i /\ idx.i < n THEN p = <<(idx.i + n) % n>> ELSE p = <<>>
InBounds == \A q \in DOMAIN Positions(n, idx) : Positions(n, idx)[q] \in 0..(n - 1)
=============================================================================
