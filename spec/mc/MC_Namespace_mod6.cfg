SPECIFICATION Spec
CONSTANTS
  Names = {"a", "b"}
  Kinds = {"port", "signal", "inst", "array", "pair", "bundle"}
  Reserved = {"ports"}
  Views = {"ports", "signals", "instances", "instarrays", "instbundles", "bundles"}
  Depth = 6
  HasElab = TRUE
  IsModule = TRUE
ACTION_CONSTRAINT Emit
