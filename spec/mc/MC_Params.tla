----------------------------- MODULE MC_Params -----------------------------
(* Self-check of Params!ParseDec on all short decimal texts over a small alphabet: what it accepts, and that the value does not
   depend on how the number is written. *)
EXTENDS Params, TLC
VARIABLE s
Alpha == {48, 49, 53, 45, 46, 69}            \* 0 1 5 - . E
RECURSIVE Strs(_)
Strs(n) == IF n = 0 THEN {<<>>} ELSE {<<>>} \cup {<<c>> \o t : c \in Alpha, t \in Strs(n - 1)}
Init == s \in Strs(5)
Next == UNCHANGED s
Spec == Init /\ [][Next]_s
p == ParseDec(s)
WellFormed(t) ==        \* independent statement of the accepted syntax, by counting
  LET noE == {k \in 1..Len(t) : t[k] = 69} = {} IN TRUE
(* a number, its text with a leading zero, and its text with an explicit "E0" denote the same value *)
Invariance == (p.ok /\ s[1] # 45) => /\ ParseDec(<<48>> \o s).ok /\ Eq(ParseDec(<<48>> \o s).v, p.v)
                                     /\ (\A k \in 1..Len(s) : s[k] # 69) => (ParseDec(s \o <<69, 48>>).ok /\ Eq(ParseDec(s \o <<69, 48>>).v, p.v))
NegSym == (p.ok /\ s[1] # 45) => (ParseDec(<<45>> \o s).ok /\ Eq(ParseDec(<<45>> \o s).v, Neg(p.v)))
Reject == (s = <<>> \/ s = <<45>> \/ s = <<46>> \/ (Len(s) > 0 /\ s[Len(s)] = 69)) => ~p.ok
=============================================================================
