SPECIFICATION RSpec
CONSTANTS
  Refs <- RefsDef
  Leaves <- LeavesDef
  Sorted = FALSE
INVARIANT Confluent
