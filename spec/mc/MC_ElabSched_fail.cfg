SPECIFICATION Spec
CONSTANTS
  Shape = "diamond"
  Mods <- ModsDef
  Children <- ChildrenDef
  NP <- NPDef
  CacheOf <- CacheOfDef
  Kind <- KindDef
  TopLists <- TopListsDef
  MaxCalls = 2
  MayFail = TRUE
INVARIANT CheckedAfterFlatten
INVARIANT AppliedInOrder
INVARIANT HistoryIndependent
INVARIANT MarkedAreComplete
INVARIANT ChildrenFirst
INVARIANT NoStalePending
INVARIANT HalfRewrittenNeverMarked
INVARIANT EditsAreChecked
ACTION_CONSTRAINT Emit
