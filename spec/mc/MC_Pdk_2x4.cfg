SPECIFICATION Spec
CONSTANT Depth = 4
CONSTANT Pdks = {"pa", "pb"}
INVARIANT DefaultIsRegistered
ACTION_CONSTRAINT Emit
