SPECIFICATION Spec
CONSTANT Depth = 6
INVARIANT FinalComplete
ACTION_CONSTRAINT Emit
