----------------------------- MODULE MC_BigNum -----------------------------
(* Self-check of lib/BigNum on all small operands against TLC's native integers. *)
EXTENDS BigNum, TLC
CONSTANT N
VARIABLES a, b, ea, eb
RECURSIVE ToMag(_)
ToMag(n) == IF n = 0 THEN <<>> ELSE <<n % 10>> \o ToMag(n \div 10)
RECURSIVE MagVal(_)
MagVal(s) == IF s = <<>> THEN 0 ELSE s[1] + 10 * MagVal(Tail(s))
RECURSIVE Pow10(_)
Pow10(k) == IF k = 0 THEN 1 ELSE 10 * Pow10(k - 1)
D(n, e) == [neg |-> n < 0, d |-> ToMag(IF n < 0 THEN -n ELSE n), e |-> e]
Val3(x) == (IF x.neg THEN -1 ELSE 1) * MagVal(x.d) * Pow10(x.e + 3) \* value * 1000, for e >= -3 (small)
Init == a \in -N..N /\ b \in -N..N /\ ea \in -1..1 /\ eb \in -1..1
Next == UNCHANGED <<a, b, ea, eb>>
Spec == Init /\ [][Next]_<<a, b, ea, eb>>
X == D(a, ea)
Y == D(b, eb)
V(n, e) == n * Pow10(e + 1)        \* value * 10
AddOk == Val3(Add(X, Y)) = 100 * (V(a, ea) + V(b, eb))
SubOk == Val3(Sub(X, Y)) = 100 * (V(a, ea) - V(b, eb))
MulOk == Val3(Mul(X, Y)) = 10 * V(a, ea) * V(b, eb)
CmpOk == Cmp(X, Y) = (IF V(a, ea) < V(b, eb) THEN -1 ELSE IF V(a, ea) = V(b, eb) THEN 0 ELSE 1)
CanonOk == Eq(X, Y) <=> (V(a, ea) = V(b, eb))
TruncOk == LET t == Trunc(X) q == V(a, ea) IN Val3(t) = 1000 * (IF q >= 0 THEN q \div 10 ELSE -((-q) \div 10))
=============================================================================
