---------------------------- MODULE MC_Namespace ----------------------------
(* Bounded instance of Namespace: enumerates every edit history of length Depth over a small
   alphabet (the history is part of the state, so the state space IS the set of histories),
   checks the intended insertion algorithm against Coherent, and prints each maximal history
   as a CASE line for replay in the real code. *)
EXTENDS Namespace, Json

CONSTANTS Names, Kinds, Reserved, Views, Depth, IsModule, HasElab

VARIABLES s, impl, hist
vars == <<s, impl, hist>>

ViewOfM(k) == CASE k = "port" -> "ports" [] k = "signal" -> "signals" [] k = "inst" -> "instances"
                [] k = "array" -> "instarrays" [] k = "pair" -> "instbundles" [] k = "bundle" -> "bundles"
ViewOfB(k) == CASE k \in {"port", "signal"} -> "signals" [] k = "bundle" -> "bundles"
ViewOf(k) == IF IsModule THEN ViewOfM(k) ELSE ViewOfB(k)

AnyRes == CHOOSE r \in Reserved : TRUE
AnyName == CHOOSE n \in Names : TRUE
AnyKind == CHOOSE k \in Kinds : TRUE
O(op, n, k, m) == [op |-> op, name |-> n, kind |-> k, mode |-> m]
Ops ==
       {O("setattr", n, k, "") : n \in Names, k \in Kinds}
  \cup {O("add", n, k, m) : n \in Names, k \in Kinds, m \in {"kw", "named"}}
  \cup {O("setattr", r, AnyKind, "") : r \in Reserved} \cup {O("add", AnyRes, AnyKind, "kw"), O("setattr", AnyName, "nonhdl", ""),
        O("add", AnyName, "nonhdl", "kw"), O("add", AnyName, AnyKind, "both"), O("add", AnyName, AnyKind, "none"),
        O("setattr", "_p", AnyKind, ""), O("setattr", "_p", "nonhdl", ""),
        O("del", AnyName, "", ""), O("subclass", "", "", "")}
  \cup (IF HasElab THEN {O("elab", "", "", "")} ELSE {})
  \cup {O("get", n, "", "") : n \in Names}
  \cup {O("setattr", n, k, "mul") : n \in Names, k \in Kinds \cap {"signal", "port"}}     \* values copied from another object by multiplication
  \cup (IF IsModule THEN {O("extfromports", "", "", "")} ELSE {})

(* the intended insertion algorithm on an implementation-shaped state: evict, then insert *)
Insert(I, n, k, id) ==
  [ns    |-> {p \in I.ns : p[1] # n} \cup {<<n, id>>},
   views |-> [v \in Views |-> IF v = ViewOf(k) THEN {p \in I.views[v] : p[1] # n} \cup {<<n, id>>}
                                                 ELSE {p \in I.views[v] : p[1] # n}]]

Init == s = Empty /\ impl = [ns |-> {}, views |-> [v \in Views |-> {}]] /\ hist = <<>>

Step(o) ==
  LET id == Len(hist) + 1
      r  == Apply(s, Reserved, o, id)
  IN /\ s' = r.st
     /\ hist' = Append(hist, o)
     /\ impl' = IF ~r.raised /\ o.op \in {"setattr", "add"} /\ ~IsPrivate(o.name)
                THEN Insert(impl, o.name, o.kind, id) ELSE impl

ReAdd == {O("readd", n, "", m) : n \in DOMAIN s.ns, m \in {"set", "add"}}
Alias == UNION {{O("alias", n, "", src) : src \in (DOMAIN s.ns) \ {n}} : n \in Names}
MulInst == IF IsModule THEN UNION {{O("mulinst", n, "", src) : src \in {x \in DOMAIN s.ns : s.ns[x].kind = "inst"}} : n \in Names} ELSE {}
Next == Len(hist) < Depth /\ \E o \in Ops \cup ReAdd \cup Alias \cup MulInst : Step(o)
Spec == Init /\ [][Next]_vars

Emit == IF Len(hist') = Depth THEN PrintT(<<"CASE", ToJson(hist')>>) ELSE TRUE

(* ---- properties of the model ---- *)
AlgoCoherent == Coherent(impl, Views)
AlgoMatchesSpec == /\ impl.ns = NsPairs(s)
                   /\ \A v \in Views : impl.views[v] = ViewPairs(s, ViewOf, v)
FrozenAfterElab == [][s.elab => s'.ns = s.ns]_vars
=============================================================================
