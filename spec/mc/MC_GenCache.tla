---------------------------- MODULE MC_GenCache ----------------------------
(* Bounded instance of GenCache.  The sequence of top-level calls (generator, spelling, call form) is kept in
   `hist`; ClassOf maps a spelling to the equality class of the parameter value it denotes, so two spellings of
   equal parameters exercise the cache-hit path.  Maximal histories are printed as CASE lines. *)
EXTENDS GenCache, Json
CONSTANTS Spellings, ClassOf, MaxCalls
VARIABLE hist
KindDef   == [GA |-> "fresh", GN |-> "nest", GP |-> "pass", GR |-> "rec"]
CalleeDef == [GA |-> "GA", GN |-> "GA", GP |-> "GA", GR |-> "GR"]
ClassOfDef == <<1, 1, 2, 0>>           \* spellings 1 and 2 denote equal parameters
vars == <<gvars, hist>>
Init == GInit /\ hist = <<>>
TopCall == /\ Len(hist) < MaxCalls
           /\ \E g \in Gens, v \in Spellings, form \in {"kw", "inst"} :
                /\ CallTop(<<g, ClassOf[v]>>)
                /\ hist' = Append(hist, [g |-> g, v |-> v, form |-> form])
Next == TopCall \/ ((BodyCall \/ Finish \/ BodyRaise \/ Recover) /\ UNCHANGED hist)
Spec == Init /\ [][Next]_vars
Emit == IF Len(hist') = MaxCalls /\ Len(hist) < MaxCalls THEN PrintT(<<"CASE", ToJson(hist')>>) ELSE TRUE
=============================================================================
