------------------------------- MODULE MC_Pdk -------------------------------
(* Every history of Depth registry operations over the PDK modules Pdks; emitted for replay in fresh processes. *)
EXTENDS Pdk, Json
CONSTANTS Depth, Pdks
VARIABLES s, hist
O(op, how, n) == [op |-> op, how |-> how, n |-> n]
Ops == {O("register", "", p) : p \in Pdks} \cup {O("set_default", h, p) : h \in {"name", "module"}, p \in Pdks}
       \cup {O("compile", "none", "")} \cup {O("compile", h, p) : h \in {"name", "module"}, p \in Pdks}
Init == s = R0 /\ hist = <<>>
Next == Len(hist) < Depth /\ \E o \in Ops : s' = RApply(s, o).st /\ hist' = Append(hist, o)
Spec == Init /\ [][Next]_<<s, hist>>
Emit == IF Len(hist') = Depth THEN PrintT(<<"CASE", ToJson(hist')>>) ELSE TRUE
DefaultIsRegistered == s.dflt = "" \/ s.dflt \in s.reg
=============================================================================
