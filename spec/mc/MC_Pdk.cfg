SPECIFICATION Spec
CONSTANT Depth = 3
INVARIANT DefaultIsRegistered
ACTION_CONSTRAINT Emit
