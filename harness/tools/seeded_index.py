"""Regenerate /verif/seeded/INDEX.md from the meta.json files."""
import glob
import json

rows = []
for f in sorted(glob.glob("/verif/seeded/*/meta.json")):
    d = json.load(open(f))
    rows.append(d)
out = ["# Seeded property-breaking changes (from independent sub-agents; each confirmed: tests pass with it, its demo fails with it and passes without)",
       "", "| id | property | needs, in order to manifest | detected by |", "|---|---|---|---|"]
for d in rows:
    out.append(f"| {d['id']} | {d['property']} | {d['needs'].replace('|', '/')} | {d['detected_by'].replace('|', '/')} |")
out.append("")
STRENGTHENED = ("only after", "after reading the", "shortly before this change")
missed = sum(1 for d in rows if d["detected_by"].startswith("NOT DETECTED"))
first = sum(1 for d in rows if not d["detected_by"].startswith("NOT DETECTED") and not any(x in d["detected_by"] for x in STRENGTHENED))
out.append(f"{len(rows)} changes; {first} were caught by a check as it stood, {len(rows) - first - missed} only after the check (model, universe or driver) was strengthened - "
           f"each such strengthening is described in the row - and {missed} are not detected (the row says why).")
open("/verif/seeded/INDEX.md", "w").write("\n".join(out) + "\n")
print(len(rows), first, missed)
