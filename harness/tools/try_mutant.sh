#!/bin/sh
# usage: try_mutant.sh <patch.diff> <PID> [tier]   - apply a seeded change to /repo, run the check, undo it straight afterwards
set -u
patch="$1"; pid="$2"; tier="${3:-quick}"
if [ -n "$(git -C /repo status --porcelain)" ]; then echo "/repo not clean"; exit 3; fi
git -C /repo apply "$patch" || { echo "patch does not apply"; exit 3; }
cd /verif && ./check "$pid" --tier "$tier" > /verif/.work/mut_out.txt 2>&1
rc=$?
git -C /repo checkout -- .
grep -c '^VIOLATION' /verif/.work/mut_out.txt | sed 's/^/violations: /'
grep -m3 -A1 '^VIOLATION' /verif/.work/mut_out.txt
tail -1 /verif/.work/mut_out.txt
echo "exit=$rc"
exit $rc
