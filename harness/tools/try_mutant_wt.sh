#!/bin/sh
# usage: try_mutant_wt.sh <patch.diff> <PID> [tier]  - like try_mutant.sh, but on the scratch worktree /tmp/wt-eval (VERIF_REPO), leaving /repo alone
set -u
patch="$1"; pid="$2"; tier="${3:-quick}"; wt=/tmp/wt-eval
[ -d "$wt" ] || git -C /repo worktree add --detach "$wt" HEAD -q
git -C "$wt" checkout -q --detach "$(git -C /repo rev-parse HEAD)" && git -C "$wt" checkout -- . && git -C "$wt" clean -fdq
git -C "$wt" apply "$patch" || { echo "patch does not apply"; exit 3; }
cd /verif && VERIF_REPO="$wt" ./check "$pid" --tier "$tier" > "/verif/.work/mut_out_$pid.txt" 2>&1
rc=$?
git -C "$wt" checkout -- . ; git -C "$wt" clean -fdq
git -C /verif checkout -- "evidence/$pid.json" 2>/dev/null
grep -c '^VIOLATION' "/verif/.work/mut_out_$pid.txt" | sed 's/^/violations: /'
grep -m3 -A1 '^VIOLATION' "/verif/.work/mut_out_$pid.txt"
tail -1 "/verif/.work/mut_out_$pid.txt"
echo "exit=$rc"
exit $rc
