"""Print the prompt given to an independent sub-agent that seeds a property-breaking change (nothing from /verif is included
except the property's own text)."""
import json
import sys

pid, wt = sys.argv[1], sys.argv[2]
n = int(sys.argv[3]) if len(sys.argv) > 3 else 2
p = [json.loads(l) for l in open("/verif/properties.jsonl") if json.loads(l)["id"] == pid][0]
print(f"""You are helping evaluate a verification tool. You have your own scratch git worktree of the Python library
dan-fritchman/Hdl21 at {wt} (work ONLY inside that directory; never touch /repo or /verif, and do not read /verif).

Here is a semantic property of the library that should always hold:

TITLE: {p['title']}
STATEMENT: {p['statement']}
QUANTIFIED OVER: {p['quantifier']['text']}
CODE IT IS ANCHORED IN: {', '.join(p['anchors']['files'])}

Your task: produce {n} DIFFERENT, independent, realistic source changes to the library (each the kind of slip a maintainer could
make in a refactor or optimisation; each a small diff to the library's non-test source files) such that each change
  (a) BREAKS the property above, while
  (b) the code still imports and the existing test suite still passes completely:
        cd {wt} && /venv/bin/python -m pytest -q -p no:cacheprovider --timeout=900     (expect 224 passed)
  (c) the breakage needs something SPECIFIC to manifest - a multi-step sequence of operations, an unusual but legal input, a
      particular ordering/history, a fault at a particular point, or two cooperating sites that each look fine alone - NOT
      something ordinary use would expose at once. Prefer subtle semantic changes over crashes.
Do not modify or delete tests. Python is /venv/bin/python; run it from inside {wt} so that `import hdl21` picks up the worktree
(check with: cd {wt} && /venv/bin/python -c "import hdl21; print(hdl21.__file__)"). PDK packages, if needed, are importable after
sys.path.insert(0, '{wt}/pdks/Sky130') (likewise Gf180, Asap7). There is no network.

For each change k = 1..{n} create the directory {wt}/_mut/k/ containing:
  patch.diff  - `git diff` of the change against HEAD (only library source files; must apply with `git apply` to a clean HEAD)
  demo.py     - a small standalone program (run as: cd {wt} && /venv/bin/python _mut/k/demo.py) that exits 0 on the unmodified
                library and exits non-zero (assertion failure) with the change applied; it must demonstrate a violation of the
                property as stated (not merely a behavioural difference), and must not depend on the working directory contents
                other than importing hdl21 from the current directory (start it with `import sys, os; sys.path.insert(0, os.getcwd())` - a script run by path has its own directory, not the current one, at the head of sys.path and would silently import another copy - and assert that hdl21.__file__ is under os.getcwd())
  notes.md    - 5-10 lines: what was changed, why the tests do not notice, what exactly is needed for the violation to manifest
Develop one change at a time: apply it, run the test suite, run the demo (must fail), then undo it with `git apply -R _mut/k/patch.diff` (never `git stash`: the stash is shared between worktrees),
run the demo again on clean HEAD (must pass), and make sure the worktree's tracked files are back to HEAD before starting the
next change (the _mut directory is untracked and stays). Finish with the worktree's tracked files identical to HEAD.
In your final message list, per change: the file(s) touched, a one-line description, and the confirmed results
(tests pass with change; demo fails with change; demo passes without).""")
