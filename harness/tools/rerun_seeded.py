"""Re-run every archived seeded change against the check that is recorded as detecting it (quick tier, on the scratch worktree /tmp/wt-eval via VERIF_REPO),
and report which are still detected.  Usage: rerun_seeded.py [id-prefix ...]   -> /verif/.work/rerun_seeded.json"""
import glob
import json
import os
import re
import subprocess
import sys

WT = "/tmp/wt-eval"
head = subprocess.run(["git", "-C", "/repo", "rev-parse", "HEAD"], capture_output=True, text=True).stdout.strip()
if not os.path.isdir(WT):
    subprocess.run(["git", "-C", "/repo", "worktree", "add", "--detach", WT, "HEAD", "-q"])
subprocess.run(["git", "-C", WT, "checkout", "-q", "--detach", head])
res = {}
for d in sorted(glob.glob("/verif/seeded/*/")):
    sid = os.path.basename(d.rstrip("/"))
    if sys.argv[1:] and not any(sid.startswith(p) for p in sys.argv[1:]):
        continue
    meta = json.load(open(d + "meta.json"))
    m = re.search(r"\./check (C\d\d)", meta.get("detected_by", ""))
    pid = m.group(1) if m else meta["property"]
    tier = "thorough" if re.search(r"--tier thorough", meta.get("detected_by", "")) and "--tier quick" not in meta.get("detected_by", "") else "quick"
    patch = None
    for f in ["patch.rebased.diff", "patch.diff"]:
        if os.path.exists(d + f):
            subprocess.run(["git", "-C", WT, "checkout", "-q", "--", "."])
            if subprocess.run(["git", "-C", WT, "apply", "--check", d + f], capture_output=True).returncode == 0:
                patch = d + f
                break
    if patch is None:
        res[sid] = {"check": pid, "result": "patch does not apply to HEAD"}
        print(sid, res[sid], flush=True)
        continue
    subprocess.run(["git", "-C", WT, "apply", patch])
    e = dict(os.environ, VERIF_REPO=WT)
    p = subprocess.run(["./check", pid, "--tier", tier], cwd="/verif", env=e, capture_output=True, text=True)
    subprocess.run(["git", "-C", WT, "checkout", "-q", "--", "."])
    subprocess.run(["git", "-C", "/verif", "checkout", "--", f"evidence/{pid}.json"], capture_output=True)
    nv = p.stdout.count("\nVIOLATION") + (1 if p.stdout.startswith("VIOLATION") else 0)
    res[sid] = {"check": pid, "tier": tier, "exit": p.returncode, "violation_lines": nv, "result": "detected" if p.returncode == 1 and nv else ("MACHINERY" if p.returncode == 2 else "NOT DETECTED")}
    print(sid, res[sid], flush=True)
    json.dump(res, open("/verif/.work/rerun_seeded.json", "w"), indent=1)
print({k: sum(1 for v in res.values() if v["result"] == k) for k in {v["result"] for v in res.values()}})
