#!/bin/sh
# usage: confirm_mutant.sh <worktree> <k> <seeded-id> <PID>  - confirm a sub-agent's change in its scratch worktree and keep it under /verif/seeded/<id>/
set -u
wt="$1"; k="$2"; sid="$3"; pid="$4"
cd "$wt" || exit 3
git checkout -q -- . ; git apply --check "_mut/$k/patch.diff" || { echo "patch does not apply to HEAD"; exit 3; }
/venv/bin/python "_mut/$k/demo.py" >/dev/null 2>&1; d0=$?
git apply "_mut/$k/patch.diff"
t=$(/venv/bin/python -m pytest -q -p no:cacheprovider --timeout=900 2>&1 | tail -1)
/venv/bin/python "_mut/$k/demo.py" >/dev/null 2>&1; d1=$?
git checkout -q -- .
echo "tests(with change): $t"; echo "demo without change exit=$d0 ; with change exit=$d1"
case "$t" in *" failed"*|*" error"*) echo "NOT KEPT: tests fail"; exit 1;; esac
if [ "$d0" -ne 0 ] || [ "$d1" -eq 0 ]; then echo "NOT KEPT: demo does not discriminate"; exit 1; fi
mkdir -p "/verif/seeded/$sid"
cp "_mut/$k/patch.diff" "_mut/$k/demo.py" "/verif/seeded/$sid/"
[ -f "_mut/$k/notes.md" ] && cp "_mut/$k/notes.md" "/verif/seeded/$sid/"
cat > "/verif/seeded/$sid/meta.json" <<EOM
{"id": "$sid", "property": "$pid", "base_commit": "$(git rev-parse HEAD)",
 "confirmed": {"tests_with_change": "$t", "demo_exit_without_change": $d0, "demo_exit_with_change": $d1},
 "ran": ["git apply patch.diff", "/venv/bin/python -m pytest -q -p no:cacheprovider --timeout=900", "/venv/bin/python demo.py (with and without the change)"],
 "needs": "see notes.md", "detected_by": "(filled in after running the check)"}
EOM
echo "KEPT /verif/seeded/$sid"
