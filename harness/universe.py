"""Exhaustive micro-universes of abstract designs (vocabulary of spec/core/Design.tla).

Each family is a complete enumeration over a small alphabet; nothing here decides validity or meaning
(TLC does: Valid!Status, Design!Denote).  Every signal bit and every child port bit carries a one-terminal
probe leaf so that every net of the source is observable.
"""
import copy
import itertools
import random

from .design import I, R, Sig, Slc, Cat, Pref, Nc, Bund, Bref, Anon, AnonDict

LEAVES = {"Probe": [{"n": "p", "w": 1}],
          "L1": [{"n": "a", "w": 1}],
          "L12": [{"n": "a", "w": 1}, {"n": "b", "w": 2}],
          "L3": [{"n": "a", "w": 3}]}

DIFF = {"sigs": [{"n": "p", "w": 1, "vis": "internal", "dir": "NONE", "src": "SOURCE", "dest": "SINK"},
                 {"n": "n", "w": 1, "vis": "internal", "dir": "NONE", "src": "SOURCE", "dest": "SINK"}],
        "subs": [], "roles": ["SOURCE", "SINK"]}


def sig(n, w=1, port=False, d="NONE"):
    return {"n": n, "w": w, "port": port, "dir": d}


def inst(n, ref, conns, kind="inst", arr=0, k="mod"):
    return {"n": n, "kind": kind, "arr": arr, "of": {"k": k, "ref": ref}, "conns": [{"p": p, "t": t} for p, t in conns]}


def probe(n, t):
    return inst(n, "Probe", [("p", t)], k="ext")


def bit(s, w, k):
    return Sig(s) if w == 1 else Slc(Sig(s), I(k))


def probes_for(sigs):
    out = []
    for s in sigs:
        for k in range(s["w"]):
            out.append(probe(f"pr_{s['n']}_{k}", bit(s["n"], s["w"], k)))
    return out


def bprobes(bname, leaves):
    """probes on the leaves of bundle instance `bname`; leaves: [(path tuple, width)]"""
    out = []
    for path, w in leaves:
        for k in range(w):
            t = Bref(bname, *path)
            out.append(probe("pr_" + "Z".join((bname,) + path) + f"_{k}", t if w == 1 else Slc(t, I(k))))
    return out


def mod(sigs=(), insts=(), bundles=(), probes=True):
    sigs = list(sigs)
    return {"sigs": sigs, "bundles": list(bundles), "insts": list(insts) + (probes_for(sigs) if probes else [])}


def design(mods, top="Top", bundles=None):
    for k, m in mods.items():
        m.setdefault("name", k)
    return {"bundles": bundles or {}, "leaves": LEAVES, "top": top, "mods": mods}


def child(w):
    return mod([sig("a", w, True)])


# ---------------------------------------------------------------------------------------------- U_sig
def terms_sig():
    ws = {"x": 1, "y": 2, "z": 3, "q": 2, "w6": 6}
    T = [Sig(n) for n in ws]
    for n in ("y", "z"):
        w = ws[n]
        T += [Slc(Sig(n), I(i)) for i in range(-w - 1, w + 1)]
        bnd = [None] + list(range(-w, w + 1))
        T += [Slc(Sig(n), R(s, e, t)) for s in bnd for e in bnd for t in (None, -1, 2)]
    small = [Sig("x"), Sig("y"), Slc(Sig("y"), I(0)), Slc(Sig("z"), R(0, 2)), Slc(Sig("z"), I(-1)), Sig("q")]
    T += [Cat(a, b) for a in small for b in small]
    T += [Cat(Sig("x"), Slc(Sig("y"), I(1)), Slc(Sig("z"), I(2))), Cat(Cat(Sig("x"), Sig("x")), Sig("x")), Cat(Sig("x"))]
    for idx in [I(0), I(1), I(2), I(-1), I(3), R(0, 2), R(1, 3), R(None, None, -1), R(1, None), R(None, 2), R(0, 3, 2)]:
        T.append(Slc(Cat(Sig("x"), Sig("y")), idx))
        T.append(Slc(Cat(Slc(Sig("z"), R(1, 3)), Sig("x")), idx))
        T.append(Slc(Slc(Sig("z"), R(0, 3)), idx))
        T.append(Slc(Slc(Sig("z"), R(None, None, -1)), idx))
    T += [Cat(Slc(Slc(Sig("z"), R(1, 3)), I(0)), Slc(Cat(Sig("x"), Sig("y")), R(1, 3)))]
    # sub-slices and indices of strided (non-unit-step) slices
    for par in [R(None, None, 2), R(1, None, 2), R(5, None, -2), R(None, None, 3), R(4, 0, -1)]:
        for idx in [I(0), I(1), I(-1), R(1, 3), R(0, 2), R(None, None, -1), R(1, None), R(0, 3, 2)]:
            T.append(Slc(Slc(Sig("w6"), par), idx))
    return T


def U_sig(max_w=3, stride=1):
    out = []
    top_sigs = [sig("x", 1), sig("y", 2), sig("z", 3), sig("q", 2, True), sig("w6", 6)]
    for k, t in enumerate(terms_sig()):
        if k % stride:
            continue
        for w in range(1, max_w + 1):
            mods = {f"C{w}": child(w), "Top": mod(top_sigs, [inst("i", f"C{w}", [("a", t)])])}
            out.append(("U_sig", design(mods)))
    return out


# ---------------------------------------------------------------------------------------------- U_pref
def U_pref():
    """3 instances of Inner(a:1); every function inst -> connection kind (chains, fans, cycles, no-connects)."""
    out = []
    names = ["i0", "i1", "i2"]
    top_sigs = [sig("s", 1), sig("bus", 3)]

    def choices(k):
        me = names[k]
        c = [("sig", Sig("s")), ("slice", Slc(Sig("bus"), I(k))), ("nc", Nc(10 + k)), ("ncshared", Nc(1)), ("ncnamed", Nc(20 + k, f"open{k}"))]
        c += [("pref", Pref(o, "a")) for o in names if o != me]
        return c
    for combo in itertools.product(choices(0), choices(1), choices(2)):
        insts = [inst(names[k], "Inner", [("a", combo[k][1])]) for k in range(3)]
        out.append(("U_pref", design({"Inner": child(1), "Top": mod(top_sigs, insts)})))
    return out


def U_pref2():
    """width-2 ports: port references sliced, concatenated, and bundle-valued; explicit signal plus references."""
    out = []
    top_sigs = [sig("s", 2), sig("t", 1)]
    inner = mod([sig("a", 2, True), sig("b", 1, True)])
    a_terms = [Sig("s"), Cat(Sig("t"), Sig("t")), Pref("j", "a"), Cat(Pref("j", "b"), Sig("t")), Slc(Sig("s"), R(None, None, -1)),
               Cat(Slc(Pref("j", "a"), I(1)), Slc(Pref("j", "a"), I(0)))]
    b_terms = [Sig("t"), Slc(Sig("s"), I(0)), Pref("j", "b"), Slc(Pref("j", "a"), I(1)), Slc(Pref("j", "a"), I(-2)), Nc(3)]
    ja_terms = [Sig("s"), Pref("i", "a"), Cat(Sig("t"), Pref("i", "b"))]
    jb_terms = [Sig("t"), Pref("i", "b"), Slc(Pref("i", "a"), I(0)), Nc(4)]
    for ta, tb, ua, ub in itertools.product(a_terms, b_terms, ja_terms, jb_terms):
        insts = [inst("i", "Inner", [("a", ta), ("b", tb)]), inst("j", "Inner", [("a", ua), ("b", ub)])]
        out.append(("U_pref2", design({"Inner": inner, "Top": mod(top_sigs, insts)})))
    return out


# ---------------------------------------------------------------------------------------------- U_bundle
def bsig(n, w=1, vis="internal", d="NONE", src="", dest=""):
    return {"n": n, "w": w, "vis": vis, "dir": d, "src": src, "dest": dest}


B1 = {"sigs": [bsig("x", 1), bsig("y", 2)], "subs": [], "roles": []}
B2 = {"sigs": [bsig("s", 1)], "subs": [{"n": "sub", "of": "B1", "flipped": False}], "roles": []}
B1_LEAVES = [(("x",), 1), (("y",), 2)]
B2_LEAVES = [(("s",), 1), (("sub", "x"), 1), (("sub", "y"), 2)]


def bnd(n, of, port=False, flipped=False, role=""):
    return {"n": n, "of": of, "port": port, "flipped": flipped, "role": role}


def U_bundle():
    out = []
    bundles = {"B1": B1, "B2": B2}
    cb = mod([sig("s1", 1, True)], bprobes("bp", B1_LEAVES), [bnd("bp", "B1", port=True)])  # child with a B1-valued port and a scalar one
    cb2 = mod([], bprobes("bq", B2_LEAVES), [bnd("bq", "B2", port=True)])            # child with a nested-bundle port
    top_sigs = [sig("u", 1), sig("v", 2), sig("w3", 3)]
    top_b = [bnd("b", "B1"), bnd("c", "B2"), bnd("tb", "B1", port=True)]
    tprobes = bprobes("b", B1_LEAVES) + bprobes("c", B2_LEAVES)
    b1_terms = [Bund("b"), Bund("tb"), Bref("c", "sub"), Anon(x=Sig("u"), y=Sig("v")), AnonDict(x=Sig("u"), y=Sig("v")),
                Anon(x=Bref("b", "x"), y=Bref("c", "sub", "y")), Anon(x=Slc(Sig("v"), I(0)), y=Slc(Sig("w3"), R(1, 3))),
                Anon(x=Slc(Bref("b", "y"), I(1)), y=Cat(Sig("u"), Bref("c", "s"))), Pref("k", "bp"),
                Anon(x=Sig("u"), y=Sig("u")), Anon(x=Sig("u")), Anon(x=Sig("u"), y=Sig("v"), zz=Sig("u")), Bund("c"), Sig("v"), Anon(x=Pref("k", "bp"), y=Sig("v")),
                Anon(x=Pref("k", "s1"), y=Sig("v"))]
    k_terms = [Bund("b"), Bund("tb"), Pref("i", "bp"), Anon(x=Bref("tb", "x"), y=Sig("v"))]
    for t, kt in itertools.product(b1_terms, k_terms):
        insts = [inst("i", "CB", [("bp", t), ("s1", Sig("u"))]), inst("k", "CB", [("bp", kt), ("s1", Slc(Sig("v"), I(1)))])]
        out.append(("U_bundle", design({"CB": cb, "Top": mod(top_sigs, insts + tprobes, top_b)}, bundles=bundles)))
    b2_terms = [Bund("c"), Anon(s=Sig("u"), sub=Bund("b")), Anon(s=Sig("u"), sub=Anon(x=Sig("u"), y=Sig("v"))),
                Anon(s=Bref("c", "s"), sub=Bref("c", "sub")), Anon(s=Sig("u"), sub=Bund("tb")), Bund("b"),
                Anon(s=Sig("u"), sub=Anon(x=Sig("u"), y=Sig("u")))]
    # equal-width members given in another order than the bundle declares them
    B3 = {"sigs": [bsig("m", 1), bsig("n", 1)], "subs": [], "roles": []}
    B3L = [(("m",), 1), (("n",), 1)]
    cb3 = mod([], bprobes("bp", B3L), [bnd("bp", "B3", port=True)])
    for t in [Anon(n=Sig("u"), m=Slc(Sig("v"), I(0))), Anon(m=Sig("u"), n=Slc(Sig("v"), I(0))), AnonDict(n=Slc(Sig("v"), I(1)), m=Sig("u")),
              Anon(n=Bref("b", "x"), m=Sig("u")), Bund("e3")]:
        insts = [inst("j", "CB3", [("bp", t)])]
        out.append(("U_bundle", design({"CB3": cb3, "Top": mod(top_sigs, insts + tprobes + bprobes("e3", B3L), top_b + [bnd("e3", "B3")])},
                                       bundles=dict(bundles, B3=B3))))
    for t in b2_terms:
        insts = [inst("m", "CB2", [("bq", t)])]
        out.append(("U_bundle", design({"CB2": cb2, "Top": mod(top_sigs, insts + tprobes, top_b)}, bundles=bundles)))
    # one leaf NAME at two paths of one bundle, with different widths; relative (negative) indices into both
    B5 = {"sigs": [bsig("d", 4)], "subs": [], "roles": []}
    B6 = {"sigs": [bsig("d", 2)], "subs": [], "roles": []}
    B4 = {"sigs": [], "subs": [{"n": "tx", "of": "B5", "flipped": False}, {"n": "rx", "of": "B6", "flipped": False}], "roles": []}
    B4L = [(("tx", "d"), 4), (("rx", "d"), 2)]
    nib = mod([sig("a", 2, True), sig("b", 1, True)])
    for ta, tb in [(Bref("n4", "rx", "d"), Slc(Bref("n4", "tx", "d"), I(-1))), (Bref("n4", "rx", "d"), Slc(Bref("n4", "tx", "d"), I(-3))),
                   (Slc(Bref("n4", "tx", "d"), R(-2, None)), Slc(Bref("n4", "rx", "d"), I(-1))), (Bref("n4", "rx", "d"), Slc(Bref("n4", "tx", "d"), I(3)))]:
        insts = [inst("p", "Nib", [("a", ta), ("b", tb)])]
        out.append(("U_bundle", design({"Nib": nib, "Top": mod(top_sigs, insts + bprobes("n4", B4L), [bnd("n4", "B4")])}, bundles={"B4": B4, "B5": B5, "B6": B6})))
    # the same nested bundle type instantiated several times inside one module: every instance has its own nets
    for t, t2 in [(Bund("c"), Bund("c2")), (Bund("c2"), Bund("c2")), (Anon(s=Bref("c2", "s"), sub=Bref("c", "sub")), Bund("c3")),
                  (Anon(s=Sig("u"), sub=Bref("c3", "sub")), Anon(s=Bref("c", "s"), sub=Bref("c2", "sub")))]:
        insts = [inst("m", "CB2", [("bq", t)]), inst("m2", "CB2", [("bq", t2)])]
        probes = tprobes + bprobes("c2", B2_LEAVES) + bprobes("c3", B2_LEAVES)
        out.append(("U_bundle", design({"CB2": cb2, "Top": mod(top_sigs, insts + probes, top_b + [bnd("c2", "B2"), bnd("c3", "B2")])}, bundles=bundles)))
        # ... and the same with the instances made as copies of one prototype (`c, c2, c3 = 3 * B2()`)
        mm = mod(top_sigs, insts + probes, top_b + [bnd("c2", "B2"), bnd("c3", "B2")])
        mm["mulbundles"] = True
        out.append(("U_bundle", design({"CB2": cb2, "Top": mm}, bundles=bundles)))
    # three copies of one prototype, each given whole to an instance of its own (nothing reaches into them): three separate sets of nets
    mm = mod([], [inst("m", "CB2", [("bq", Bund("c"))]), inst("m2", "CB2", [("bq", Bund("c2"))]), inst("m3", "CB2", [("bq", Bund("c3"))]),
                  inst("m4", "CB2", [("bq", Bund("c2"))])], [bnd("c", "B2"), bnd("c2", "B2"), bnd("c3", "B2")], probes=False)
    mm["mulbundles"] = True
    out.append(("U_bundle", design({"CB2": cb2, "Top": mm}, bundles=bundles)))
    return out


# ---------------------------------------------------------------------------------------------- U_array
def U_array():
    out = []
    bundles = {"B1": B1}
    cb = mod([sig("a", 1, True)], bprobes("bp", B1_LEAVES), [bnd("bp", "B1", port=True)])
    top_sigs = [sig("u", 1), sig("v", 2), sig("w3", 3), sig("w6", 6)]
    for n in (1, 2, 3):
        a_terms = [Sig("u"), Sig("v"), Sig("w3"), Slc(Sig("w3"), R(0, n)), Cat(*[Sig("u")] * n), Slc(Sig("w6"), R(0, n)),
                   Slc(Sig("w6"), R(None, None, -1)), Cat(Slc(Sig("v"), I(1)), Sig("v")),
                   # reversed and strided slices handed out element by element
                   Slc(Sig("w6"), R(n - 1, None, -1)), Slc(Sig("w6"), R(0, 2 * n, 2)), Slc(Sig("w6"), R(5, 5 - n, -1))]
        b_terms = [Sig("v"), Sig("w6"), Slc(Sig("w6"), R(0, 2 * n)), Cat(*[Sig("v")] * n), Sig("w3"), Cat(Sig("w3"), Sig("u")), Nc(7),
                   Slc(Sig("w6"), R(2 * n - 1, None, -1)), Slc(Sig("w6"), R(1, 1 + 2 * n)) if n < 3 else Slc(Sig("w6"), R(None, None, -1))]
        for ta, tb in itertools.product(a_terms, b_terms):
            insts = [inst("arr", "L12", [("a", ta), ("b", tb)], kind="array", arr=n, k="ext")]
            out.append(("U_array", design({"Top": mod(top_sigs, insts)})))
        for ta in a_terms:
            for tb in [Bund("b"), Anon(x=Sig("u"), y=Sig("v"))]:
                insts = [inst("arr", "CB", [("a", ta), ("bp", tb)], kind="array", arr=n)]
                out.append(("U_array", design({"CB": cb, "Top": mod(top_sigs, insts + bprobes("b", B1_LEAVES), [bnd("b", "B1")])}, bundles=bundles)))
    return out


# ---------------------------------------------------------------------------------------------- U_pair
def U_pair():
    out = []
    bundles = {"Diff": DIFF}
    c2 = mod([sig("a", 1, True), sig("b", 1, True)])
    top_sigs = [sig("u", 1), sig("v", 1), sig("w2", 2)]
    DL = [(("p",), 1), (("n",), 1)]
    terms = [Bund("d"), Sig("u"), Anon(p=Sig("u"), n=Sig("v")), Anon(p=Bref("d", "n"), n=Bref("d", "p")), Bref("d", "p"),
             Slc(Sig("w2"), I(0)), Anon(p=Slc(Sig("w2"), I(0)), n=Slc(Sig("w2"), I(1))), Sig("w2"), Bund("e"), Anon(p=Sig("u")), Nc(5),
             # members written in another order than Diff declares them
             Anon(n=Sig("v"), p=Sig("u")), AnonDict(n=Bref("d", "p"), p=Slc(Sig("w2"), I(1)))]
    for ta, tb in itertools.product(terms, terms):
        insts = [inst("pr", "C2", [("a", ta), ("b", tb)], kind="pair")]
        out.append(("U_pair", design({"C2": c2, "Top": mod(top_sigs, insts + bprobes("d", DL) + bprobes("e", DL), [bnd("d", "Diff"), bnd("e", "Diff")])},
                                     bundles=bundles)))
    # an instance-bundle type of the designer's own (h.InstanceBundleType) over a three-signal bundle: one instance per member
    T3 = {"sigs": [bsig("x", 1), bsig("y", 1), bsig("z", 1)], "subs": [], "roles": []}
    TL = [(("x",), 1), (("y",), 1), (("z",), 1)]
    terms3 = [Bund("t"), Sig("u"), Anon(x=Sig("u"), y=Sig("v"), z=Slc(Sig("w2"), I(1))), Anon(z=Bref("t", "x"), x=Bref("t", "z"), y=Sig("v")),
              Anon(x=Sig("u"), y=Sig("v")), Bund("d"), Bund("t2")]
    for ta, tb in itertools.product(terms3, terms3):
        i3 = inst("tr", "C2", [("a", ta), ("b", tb)], kind="pair")
        i3["ibt"], i3["members"] = "T3", ["x", "y", "z"]
        out.append(("U_pair", design({"C2": c2, "Top": mod(top_sigs, [i3] + bprobes("t", TL) + bprobes("t2", TL) + bprobes("d", DL),
                                                           [bnd("t", "T3"), bnd("t2", "T3"), bnd("d", "Diff")])}, bundles={"Diff": DIFF, "T3": T3})))
    return out


# ---------------------------------------------------------------------------------------------- U_hier
def U_hier():
    """depth 3, shared sub-modules (diamond), ports passed through several levels, buses split on the way down."""
    out = []
    leafm = mod([sig("p", 1, True), sig("q", 2, True)], [inst("l", "L12", [("a", Sig("p")), ("b", Sig("q"))], k="ext")])
    mids = {
        "thru": lambda: mod([sig("a", 1, True), sig("b", 2, True)], [inst("x", "Leafm", [("p", Sig("a")), ("q", Sig("b"))])]),
        "swap": lambda: mod([sig("a", 1, True), sig("b", 2, True)], [inst("x", "Leafm", [("p", Slc(Sig("b"), I(0))), ("q", Cat(Sig("a"), Slc(Sig("b"), I(1))))])]),
        "two": lambda: mod([sig("a", 1, True), sig("b", 2, True), sig("n", 1)],
                           [inst("x", "Leafm", [("p", Sig("a")), ("q", Cat(Sig("n"), Slc(Sig("b"), I(0))))]),
                            inst("y", "Leafm", [("p", Sig("n")), ("q", Pref("x", "q"))])]),
        "nc": lambda: mod([sig("a", 1, True), sig("b", 2, True)], [inst("x", "Leafm", [("p", Nc(1)), ("q", Sig("b"))]), inst("z", "L1", [("a", Sig("a"))], k="ext")]),
    }
    top_sigs = [sig("g", 1), sig("hh", 2), sig("io", 2, True)]
    ta = [Sig("g"), Slc(Sig("io"), I(1)), Pref("m1", "a")]
    tb = [Sig("hh"), Sig("io"), Cat(Sig("g"), Slc(Sig("hh"), I(0))), Pref("m1", "b")]
    for k0, k1 in itertools.product(mids, mids):
        for a0, b0, a1, b1 in itertools.product(ta[:2], tb[:3], ta, tb):
            mods = {"Leafm": leafm, "M0": mids[k0](), "M1": mids[k1]()}
            insts = [inst("m0", "M0", [("a", a1 if a1["k"] != "pref" else Pref("m1", "a")), ("b", b1 if b1["k"] != "pref" else Pref("m1", "b"))]),
                     inst("m1", "M1", [("a", a0), ("b", b0)])]
            mods["Top"] = mod(top_sigs, insts)
            out.append(("U_hier", design(mods)))
    return out


FAMILIES = {"U_sig": U_sig, "U_pref": U_pref, "U_pref2": U_pref2, "U_bundle": U_bundle, "U_array": U_array, "U_pair": U_pair, "U_hier": U_hier}


def all_designs(tier="quick", seed=0):
    rnd = random.Random(seed)
    out = []
    for name, fn in FAMILIES.items():
        ds = fn()
        if tier == "quick":
            cap = {"U_hier": 400}.get(name)
            if cap and len(ds) > cap:
                ds = rnd.sample(ds, cap)
        out += ds
    out += U_rand(300 if tier == "quick" else 12000, seed)
    # parameter values on about half of the external leaf devices (arrays and pairs included): "the same leaf devices with the same parameters"
    prnd = random.Random(seed + 5)
    for fam, D in out:
        for m in D["mods"].values():
            for i in m["insts"]:
                if i["of"]["k"] == "ext" and i["of"]["ref"] in ("L1", "L12", "L3") and prnd.random() < 0.5:
                    i["pv"] = [["v", prnd.randint(0, 3)]] + ([["w", prnd.randint(1, 9)]] if prnd.random() < 0.3 else [])
    return out


# ---------------------------------------------------------------------------------------------- U_rand
def random_design(rnd):
    """One type-directed random hierarchical design mixing every construct of the families above.  Terms are generated for a wanted width / bundle type,
    so most designs are well-formed; whether one really is, and what it denotes, is still decided by TLC alone."""
    bundles = {"B1": B1, "B2": B2}
    leaves_of = {"B1": B1_LEAVES, "B2": B2_LEAVES}
    nmods = rnd.randint(1, 3)
    names = ["Top"] + [f"R{k}" for k in range(1, nmods)]
    mods = {}
    formals = {}       # module -> [(port name, width or 0, bundle type or "")]
    for mi in reversed(range(nmods)):
        name = names[mi]
        sigs = []
        for k in range(rnd.randint(2, 4)):
            sigs.append(sig(f"s{k}", rnd.choice([1, 1, 2, 3, 4])))
        if mi > 0:
            for k in range(rnd.randint(1, 2)):
                sigs.append(sig(f"p{k}", rnd.choice([1, 2, 3]), True))
        elif rnd.random() < 0.5:
            sigs.append(sig("io", rnd.choice([1, 2]), True))
        bl = []
        if mi > 0 and rnd.random() < 0.5:
            bl.append(bnd("bp", rnd.choice(["B1", "B2"]), port=True))
        for k in range(rnd.randint(0, 2)):
            bl.append(bnd(f"b{k}", rnd.choice(["B1", "B2"])))
        formals[name] = [(s["n"], s["w"], "") for s in sigs if s["port"]] + [(b["n"], 0, b["of"]) for b in bl if b["port"]]
        insts = []
        ninst = rnd.randint(1, 3)
        targets = []
        for k in range(ninst):
            cands = [("ext", "L1"), ("ext", "L12"), ("ext", "L3")] + [("mod", n) for n in names[mi + 1:]] * 3
            kk, ref = rnd.choice(cands)
            fs = [(p["n"], p["w"], "") for p in LEAVES[ref]] if kk == "ext" else formals[ref]
            kind, arr = "inst", 0
            r = rnd.random()
            if r < 0.15:
                kind, arr = "array", rnd.randint(2, 3)
            elif r < 0.25 and all(not b for _, _, b in fs):
                kind = "pair"
            targets.append((f"i{k}", kk, ref, fs, kind, arr))

        def sig_term(w, depth=0, top=False):
            opts = []
            exact = [s for s in sigs if s["w"] == w]
            wider = [s for s in sigs if s["w"] > w]
            if exact:
                opts += ["sig"] * 3
            if wider:
                opts += ["slice", "slice", "rslice"]
                if any(s["w"] >= 2 * w - 1 and w > 1 for s in wider):
                    opts.append("stride")
            if w >= 2 and depth < 2:
                opts += ["cat", "cat"]
            if depth < 2:
                opts.append("slice_of_cat")
            prefs = [(n, p) for n, kk, ref, fs, kind, arr in targets if kind == "inst" for p, pw, pb in fs if pw == w and not pb]
            if prefs and depth < 2:
                opts += ["pref"]
            wprefs = [(n, p, pw) for n, kk, ref, fs, kind, arr in targets if kind == "inst" for p, pw, pb in fs if pw > w and not pb]
            if wprefs and depth < 2:
                opts.append("slice_of_pref")
            brefs = [(b["n"], path) for b in bl for path, lw in leaves_of[b["of"]] if lw == w]
            if brefs:
                opts += ["bref"]
            if top and rnd.random() < 0.08:
                return Nc(rnd.randint(1, 3), rnd.choice(["", "", "open"]))
            if not opts:
                return Cat(*[sig_term(1, depth + 1) for _ in range(w)]) if w > 1 and depth < 3 else Sig(sigs[0]["n"])
            c = rnd.choice(opts)
            if c == "sig":
                return Sig(rnd.choice(exact)["n"])
            if c in ("slice", "rslice", "stride"):
                if c == "stride":
                    s = rnd.choice([s for s in wider if s["w"] >= 2 * w - 1])
                    st = rnd.randint(0, s["w"] - (2 * w - 1))
                    return Slc(Sig(s["n"]), R(st, st + 2 * w - 1, 2))
                s = rnd.choice(wider)
                st = rnd.randint(0, s["w"] - w)
                if w == 1 and rnd.random() < 0.6:
                    return Slc(Sig(s["n"]), I(rnd.choice([st, st - s["w"]])))
                if c == "rslice":
                    return Slc(Sig(s["n"]), R(st + w - 1, st - 1 if st > 0 else None, -1))
                return Slc(Sig(s["n"]), R(st if st or rnd.random() < 0.5 else None, st + w if st + w < s["w"] or rnd.random() < 0.5 else None))
            if c == "cat":
                k = rnd.randint(1, w - 1)
                parts = [sig_term(k, depth + 1), sig_term(w - k, depth + 1)]
                return Cat(*parts)
            if c == "slice_of_cat":
                extra = rnd.randint(1, 2)
                inner = Cat(sig_term(extra, depth + 1), sig_term(w, depth + 1)) if rnd.random() < 0.5 else Cat(sig_term(w, depth + 1), sig_term(extra, depth + 1))
                st = rnd.randint(0, extra)
                return Slc(inner, I(st)) if w == 1 else Slc(inner, R(st, st + w))
            if c == "pref":
                n, p = rnd.choice(prefs)
                return Pref(n, p)
            if c == "slice_of_pref":
                n, p, pw = rnd.choice(wprefs)
                st = rnd.randint(0, pw - w)
                return Slc(Pref(n, p), I(st)) if w == 1 else Slc(Pref(n, p), R(st, st + w))
            n, path = rnd.choice(brefs)
            return Bref(n, *path)

        def bundle_term(bt, depth=0):
            opts = ["anon"]
            same = [b["n"] for b in bl if b["of"] == bt]
            if same:
                opts += ["bund"] * 3
            subs = [b["n"] for b in bl if b["of"] == "B2"] if bt == "B1" else []
            if subs:
                opts.append("sub")
            pp = [(n, p) for n, kk, ref, fs, kind, arr in targets if kind == "inst" for p, pw, pb in fs if pb == bt]
            if pp and depth == 0:
                opts.append("pref")
            c = rnd.choice(opts)
            if c == "bund":
                return Bund(rnd.choice(same))
            if c == "sub":
                return Bref(rnd.choice(subs), "sub")
            if c == "pref":
                n, p = rnd.choice(pp)
                return Pref(n, p)
            if bt == "B1":
                mem = {"x": sig_term(1, 1), "y": sig_term(2, 1)}
            else:
                mem = {"s": sig_term(1, 1), "sub": bundle_term("B1", depth + 1)}
            if rnd.random() < 0.3:
                mem = dict(reversed(list(mem.items())))
            return (AnonDict if rnd.random() < 0.3 else Anon)(**mem)

        for n, kk, ref, fs, kind, arr in targets:
            conns = []
            for p, pw, pb in fs:
                if pb:
                    conns.append((p, bundle_term(pb)))
                elif kind == "array":
                    conns.append((p, sig_term(pw * arr if rnd.random() < 0.6 else pw, top=False)))
                elif kind == "pair":
                    r = rnd.random()
                    if r < 0.4:
                        conns.append((p, sig_term(pw)))
                    else:
                        conns.append((p, Anon(p=sig_term(pw, 1), n=sig_term(pw, 1))))
                else:
                    conns.append((p, sig_term(pw, top=True)))
            insts.append(inst(n, ref, conns, kind=kind, arr=arr, k=kk))
        # a port referenced by somebody needs no explicit connection: sometimes drop one that is referenced
        pr = []
        for b in bl:
            pr += bprobes(b["n"], leaves_of[b["of"]])
        mods[name] = mod(sigs, insts + pr, bl)
    order = {n: mods[n] for n in reversed(list(mods))}
    return design(order, bundles=bundles)


def U_rand(n=300, seed=0):
    rnd = random.Random(seed * 7919 + 17)
    return [("U_rand", random_design(rnd)) for _ in range(n)]
