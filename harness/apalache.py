"""Optional cross-check with Apalache (symbolic; needs typed specs): inductive invariants of two small state machines, for ANY number of
steps.  Never the deciding engine of a property check: results go into the evidence (thorough tier), a wrong outcome is a machinery failure."""
import re
import shutil
import subprocess
from pathlib import Path

from .common import WORK
from .tlc import SPEC, TlcError


def run(module, *args, timeout=1500):
    out = WORK / "apalache" / module
    shutil.rmtree(out, ignore_errors=True)
    out.mkdir(parents=True, exist_ok=True)
    cmd = ["apalache-mc", "check", *args, f"--out-dir={out}", str(SPEC / "apalache" / f"{module}.tla")]
    try:
        p = subprocess.run(cmd, capture_output=True, text=True, timeout=timeout, cwd=str(out))
    except subprocess.TimeoutExpired:
        return "timeout"
    finally:
        pass
    m = re.search(r"The outcome is: (\w+)", p.stdout)
    res = m.group(1) if m else f"exit {p.returncode}"
    shutil.rmtree(out, ignore_errors=True)
    return res


def inductive(module, cinit=None, expect_step="NoError"):
    """Init => IndInv (length 0) and IndInv /\\ Next => IndInv' (length 1 from IndInit).  Returns a dict for the evidence; raises TlcError when an
    outcome is not the expected one (timeouts are reported, not raised)."""
    c = [f"--cinit={cinit}"] if cinit else []
    base = run(module, *c, "--init=Init", "--inv=IndInv", "--length=0")
    step = run(module, *c, "--init=IndInit", "--inv=IndInv", "--length=1")
    res = {"module": module, "cinit": cinit or "", "base_case": base, "inductive_step": step, "expected_step": expect_step}
    if "timeout" in (base, step):
        return res
    if base != "NoError" or step != expect_step:
        raise TlcError(f"Apalache {module} ({cinit}): base={base} step={step}, expected NoError / {expect_step}")
    return res
