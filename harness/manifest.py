"""Regenerate /verif/MANIFEST.json from the table below:  /venv/bin/python -m harness.manifest"""
import json
from pathlib import Path

VERIF = Path(__file__).resolve().parent.parent
ALL = [f"C{i:02d}" for i in range(1, 20)]

CLAIMED = {
    "C15": dict(
        text="api/Pdk.tla: (a) the PDK registry as a state machine (register, set_default, compile by default / name / module) - TLC enumerates "
             "every history of 3 operations over 3 PDK modules, each replayed in a fresh process with stand-in modules, Trace_PdkReg checks "
             "which PDK every compile reached; (b) the compile contract on packages exported before, after one and after two compilations "
             "(hierarchy, instance names, every connection unchanged; only technology-mapped instances re-targeted; untouched instances "
             "identical; compile idempotent; compiled package well-formed by Package!PkgFaults and netlistable); (c) device selection by model "
             "name or by type/family/threshold over the device tables read from the running sample / Sky130 / GF180 / ASAP7 packages, a "
             "satisfying device must have the generic primitive's terminals, an unsatisfiable request must be refused with a descriptive error. "
             "Every table entry x every generic primitive of its kind by model, MOS triples by parameters, four ways of invoking compile; "
             "a sample (thorough: all) of the ~3,100 logic cells instantiated and netlisted.",
        note="Trusted: table normalisation, design builder and projections in harness/props/c15.py, TLC, vlsirtools netlisters. Device-name patterns "
             "are not checked against a list in the spec (only that the device is the table's entry for the request). Parameter translation "
             "(sizes, multipliers) is exercised but only checked through idempotence and well-formedness.",
        ref="6 C15", technique="TLA+ registry state machine (MC + replay) and compile-contract spec decided by TLC on recorded packages"),
    "C12": dict(
        text="sched/Repro.tla models the mechanism - passes visit hash-ordered back-reference sets in an order the environment chooses - and TLC "
             "shows the re-connection step is confluent iff the visits are ordered (the unordered configuration yields TLC's counterexample, "
             "which the check expects). The code is then sampled: design programs (one bundle feeding several ports of one and of several "
             "instances, implicit signals, generator-made modules, chains of parameterised generator calls named from their parameter values "
             "- with earlier calls in the same process that write equal values differently -, arrays, pairs, hierarchies) run in N fresh interpreters, each with its own "
             "PYTHONHASHSEED, program order and amount of unrelated allocation / elaboration; every serialized package and spice / spectre / "
             "verilog netlist is a single-assignment register across all interpreters, decided by TLC (Trace_Register).",
        note="Exploration of configurations: hash seeds and allocation histories are sampled (8 interpreters quick, 32 thorough), not exhausted; "
             "the model explains where order dependence can enter, only the sampled runs show whether the code has it. Trusted: worker, digests, TLC.",
        ref="6 C12", technique="TLA+ confluence model (Repro) + TLC single-assignment validation of outputs from sampled process configurations",
        category="exploration"),
    "C17": dict(
        text="api/SimExport.tla states what exporting a Sim must yield: top = the testbench, present exactly once in the package; analyses, controls "
             "and options complete and in their original order; names, expressions, paths, sweep kinds, nested analyses kept; every number the "
             "double nearest its exact decimal value (BigNum, neighbours supplied); analysis names pairwise distinct; a testbench without "
             "exactly one scalar port rejected. Seeded random Sims over all 15 attribute kinds, nesting to depth 2-3, all sweep kinds and "
             "SaveTarget forms, 18 Scalar spellings, three construction styles, alone and in lists sharing or not sharing a testbench are "
             "exported and decided by TLC (Trace_Sim).",
        note="Trusted: builder, SimInput projection, 'exact value of a spelling' (Decimal of the text / of repr(float)), Decimal(float), math.nextafter "
             "in harness/props/c17.py; TLC. Sims are sampled (500 groups quick, 5000 thorough), not exhaustive; SaveMode.SELECTED and bool options "
             "are not generated (vlsir has no counterpart).",
        ref="6 C17", technique="TLA+ functional spec (SimExport over BigNum) + TLC batch validation of recorded SimInputs"),
    "C16": dict(
        text="Hierarchies (depth 3, shared / distinct sub-modules, internal nets at every level, ports passed through, scalar and bus signals, "
             "primitive and external leaves below and at the top, top-level signals named like flatten's ':'-joined internal-net names) are "
             "flattened with hdl21.flatten and exported. TLC (Trace_Flatten): a flattenable design (Valid!Status = valid, plain-signal "
             "connections) must not be rejected; the flat module holds exactly one primitive/external instance per leaf device "
             "(Design!LeafTable), keeps the ports, and induces the same partition of leaf-terminal and port bits as Design!Denote of the source.",
        note="Trusted: splitting flat instance names at ':' into paths (harness/props/c16.py), builder, projector, TLC. Designs whose own names "
             "contain ':' may be refused. Quick samples 500 of the 1,080 hierarchies.",
        ref="6 C16", technique="TLA+ denotational oracle (Design/Package) on flattened modules, decided by TLC"),
    "C19": dict(
        text="api/Builtins.tla writes the documented Series / Wrapper topologies as source designs (n units, unit 0's first and unit n-1's "
             "second series port are the module's, unit k's second joins unit k+1's first on private net i[k], every other port parallel; "
             "nser = 1 and Wrapper: one inner instance, every signal- and bundle-valued port passed through). For n in 1..N x 7 unit cells "
             "(2-4 port primitives, external modules incl. a bus port, modules with scalar/bus/bundle ports) x every ordered pair of distinct "
             "ports x by name / by Signal, plus MosStack and Wrapper, the call is made and exported; TLC (Trace_Builtins) requires "
             "PkgDenote(package) = Denote(expected design) and equal leaf tables, or a raise for non-scalar series ports / bundle-port units.",
        note="Trusted: driver, builder, projector, TLC. N = 6 quick, 16 thorough; exhaustive over that family.",
        ref="6 C19", technique="TLA+ topology spec (Builtins) + denotational comparison by TLC"),
    "C11": dict(
        text="api/RoundTrip.tla states component-wise equality of two packages (module list and order, ports with direction and order, signals, "
             "instances with reference, parameter names and values, connection ports and targets incl. slices and concatenations, external "
             "modules with port order and spice type, literals) and names the first difference. Every package of the corpus (valid universe "
             "designs, the examples' exported packages, and modules full of primitive / external-module instances with parameter values of "
             "every class, literals and every spice type; every package the repository's own test-suite exports; histories of imports in one "
             "process declaring one external module name differently) is imported with from_proto and its imported top-level modules "
             "re-exported; TLC (Trace_RoundTrip) compares.",
        note="Trusted: the uniform projection of both packages in harness/props/c11.py, TLC. Re-exported are the imported modules no instance of the package refers to, in package order.",
        ref="6 C11", technique="TLA+ structural equality spec (RoundTrip) decided by TLC on recorded package pairs"),
    "C13": dict(
        text="api/Params.tla states how each class of parameter value must appear on the exported instance (None omitted; str / string-valued Enum "
             "/ Literal / Decimal -> literal with the same text; int -> int64; float -> double with the same bits; Prefixed -> prefix enum by "
             "the exponent table, integral mantissa that fits 64 bits -> int64 else the exact decimal string, compared by value with a decimal "
             "parser self-checked by MC_Params; Scalar fields: numeric text -> UNIT-prefixed number of the same decimal value, other text -> "
             "literal), the ideal-primitive name map and the pulse-source parameter renaming. Every primitive x every parameter field x value "
             "class, and external modules with dict- and paramclass-typed parameters, are exported and decided by TLC (Trace_Params).",
        note="Trusted: value descriptors and ParamValue reading in harness/props/c13.py, TLC, BigNum. Value pools are finite (19 texts, boundary "
             "ints, floats, 21 prefixes x mantissas sampled); a value check refusing the primitive call itself is not an export fault.",
        ref="6 C13", technique="TLA+ functional spec (Params over BigNum) + TLC batch validation of recorded exports"),
    "C07": dict(
        text="sched/ElabSched.tla models ElabPass.elaborate / elaborate_module_base and the process-global per-class done/pending/failed caches, "
             "one action per decision point. It is model-checked (AppliedInOrder, ChildrenFirst, HistoryIndependent, MarkedAreComplete, "
             "CheckedAfterFlatten, NoStalePending) over four 5-module DAG shapes with sharing, with the pass list and cache assignment read "
             "from the running code; TLC emits every call history. Each history x entry-point assignment (elaborate / to_proto / netlist) runs "
             "in a fresh process on fresh copies of the DAG (bundle-valued ports, port references, arrays, bundle-free modules) with the "
             "elaboration hooks on: Trace_Elab requires the hook events - every skip/enter decision, logged |done| and pending sets, "
             "children-first order, per-module pass sequences - to be a behaviour of ElabSched, and Trace_Register requires every package and "
             "netlist to be byte-identical across all histories incl. single-call reference histories; new parents of elaborated modules must "
             "build (fresh-parent reference histories included), a parent with a bundle of another type must be refused, additions after "
             "elaboration must be refused. The hook-event streams of the repository's own test-suite (one pytest process per test file, "
             "~20,000 events) are validated against the scheduler bookkeeping without a known DAG (Trace_ElabSuite). On every run tampered "
             "copies of accepted traces (a count raised, an event dropped or relabelled, a set truncated) must be rejected by both trace "
             "specs - otherwise the machinery, not the library, is reported broken.",
        note="Trusted: hook sinks and digests (harness/elabtrace.py, harness/suite_plugin.py), driver, TLC. Bounds: 4 shapes, 2 calls (quick) / 3 calls (thorough), top lists "
             "of 1-2 modules, entry-point assignments sampled. Id-reuse of freed objects (THE_CACHE keyed by id) is not forced.",
        ref="6 C07", technique="TLA+ state machine (ElabSched) model-checked + TLC-enumerated call histories replayed in fresh processes + hook-trace validation by TLC"),
    "C08": dict(
        text="ElabSched with FailAt enabled at every (pass, module) and GenCache with BodyRaise are model-checked (NoStalePending, "
             "HalfRewrittenNeverMarked). For every DAG shape x module x failure source - an exception injected through a custom pass list "
             "before every pass position and inside every pass after its rewrite, real design faults caught by a checking pass and by a "
             "rewriting pass part-way, generator bodies raising once - the failing call is made in a fresh process and followed by every "
             "continuation (unrelated design, tops without / with the offending module, retry with the same and the default elaborator, repair "
             "and retry). Each call is paired with what a fresh process returns for the design as it is then; Trace_Fail decides the contract "
             "(returns only what a fresh process returns; unrelated designs unaffected; raises only the fresh error or the original failure) "
             "and Trace_Elab validates the fail / refail / circular hook events against ElabSched. Further failure sources: a circular hierarchy (the "
             "scheduler's own refusal; MC_ElabSched_cycle with PROPERTY EveryCallEnds - termination under weak fairness), a failure at export (an "
             "un-exportable parameter value on a shared call object), a design fault first met inside pdk.compile of a list; and in every second history "
             "the designer edits a module the failed call left unfinished (model: Edit action, invariant EditsAreChecked).",
        note="Trusted: driver incl. fork-based fresh references, error signature = exception type + last message line, TLC. Injection positions are "
             "sampled in quick (6 per module), exhaustive in thorough.",
        ref="6 C08", technique="TLA+ state machines (ElabSched, GenCache) with fault actions + fault-sequence enumeration replayed + TLC trace validation",
        category="fault_enumeration"),
    "C05": dict(
        text="Seven+1 base patterns exercise every name-inventing mechanism (implicit signal of a port-reference group, unnamed and named "
             "no-connects, flattened members of internal and nested bundle instances, members of one bundle whose flattened names coincide, "
             "array elements, Pair members). Designer signals (1/2 bit), instances and bundle instances are named exactly like every name "
             "elaboration would invent, with 0-2 trailing-underscore variants also taken, in both declaration orders - exhaustive over that "
             "family. TLC (Trace_Names) requires: raise, or a well-formed package (Package!PkgFaults) that keeps every designer object and "
             "denotes the design (Design!Denote = Package!PkgDenote; bundle members identified by path, invented instance names compared "
             "up to trailing underscores).",
        note="Trusted: relabelling and the underscore-stripping renaming in harness/props/c05.py, builder, projector, TLC. Top-level bundle "
             "ports colliding with designer ports are not generated.",
        ref="6 C05", technique="TLA+ denotational oracle (Design/Package/Valid) on adversarially named designs, decided by TLC"),
    "C10": dict(
        text="core/Bundles.tla states what a bundle instance flattens to (paths joined with underscores, leaf widths, direction by flip "
             "parity for port leaves and by role for role-carrying leaves, internal instances -> undirected internal signals). Exhaustive "
             "single-path cases (depth <= 3 x none/constructor/flipped() per level x six leaf kinds x role relation x port/internal x "
             "width) and seeded random trees (depth <= 3, fan-out <= 3) are exported; TLC (Trace_Bundle) compares the exported ports and "
             "signals with Bundles!FlatPorts/FlatSignals. The same trees are connected parent-to-child and the C01 oracle decides that "
             "both sides agree which flattened port carries which member.",
        note="Trusted: driver, builder, TLC. Trees are sampled (quick 1500, thorough 15000); single paths are exhaustive.",
        ref="6 C10", technique="TLA+ functional spec (Bundles) + TLC batch validation; connection agreement via Design/Package denotations"),
    "C04": dict(
        text="core/Build.tla is the state machine of connection operations (connect by call / assignment / connect(), replace, disconnect, "
             "reading a port reference). TLC enumerates every history (MC_Build: 2 scalar + 2 bundle-valued ports, ten connectable kinds as "
             "replaced and replacing value, canonical completing suffix; exhaustive depth 2-3, simulate to 6) and emits it with the spec's "
             "final mapping. Each history is replayed on real instances: Trace_Build validates every step (conns dictionaries and every "
             "connectable's back-reference set equal the spec mapping and its inverse; refusals exactly where Build says), and Trace_Conn "
             "requires the exported package to denote the design given by the spec's FINAL mapping.",
        note="Trusted: harness/props/c04.py driver/projector (reads the private back-reference sets), builder, TLC. Arrays and Pairs are "
             "exercised by C01's universes, not by the history model yet.",
        ref="6 C04", technique="TLA+ state machine (Build) + TLC-enumerated histories replayed + TLC trace validation + denotational final check"),
    "C06": dict(
        text="Package!PkgFaults states closure and self-consistency of a vlsir Package (unique names, definition before use, ports name "
             "declared signals, every instance reference resolves to a package module / declared external module / a primitive of the "
             "spec's table, each target port connected exactly once, every connection target inside its signal and of the port's width). "
             "Corpus: packages of the valid universe designs, every package exported by the seven repository examples (captured with the "
             "export hook), every package exported while the repository's own test-suite runs under the hooks (one pytest process per test "
             "file; PDK-compiled designs included), built-in generators over their parameter ranges, packages returned after a failed "
             "attempt, same-named external modules in two domains. TLC (Trace_Pkg) decides; acceptance by from_proto and the spice/spectre "
             "netlisters is logged and required.",
        note="Trusted: protobuf->JSON projector, TLC; netlister acceptance is not demanded of packages with technology-independent "
             "hdl21.primitives devices (vlsirtools refuses those by design). PDK-compiled designs join the corpus through C15.",
        ref="6 C06", technique="TLA+ well-formedness predicate (Package!PkgWF) evaluated by TLC on recorded packages"),
    "C01": dict(
        text="core/Design.tla defines what a source design denotes (leaf devices; partition of leaf-terminal and top-port bits into nets) "
             "from the language semantics alone, core/Package.tla what an exported package denotes as the VLSIR netlisters read it, "
             "core/Valid.tla which designs are well formed. Exhaustive micro-universes of designs (signals/slices/concats nested, port-"
             "reference chains/fans/cycles, shared/named no-connects, bundles/sub-bundles/anonymous bundles incl. dict shorthand, arrays "
             "broadcast/per-element, Pair, 3-level hierarchies with sharing; every net observable through probe leaves) are built with the "
             "real API in several construction styles and exported; TLC (Trace_Conn) classifies each design and requires "
             "PkgDenote(package) = Denote(source), equal leaf tables and equal leaf parameter values. Type-directed random hierarchical "
             "designs (U_rand) extend the universes. Every 3rd (thorough: every) exported design is also netlisted in SPICE format and the "
             "text read back by position (core/Netlist.tla): it must describe the same circuit as the package.",
        note="Trusted: harness/design.py (builder + package projector), harness/universe.py (enumeration), the lexical SPICE reader in "
             "harness/props/conn.py, TLC. The netlister reading (slice bot..top, concat parts MSB-first) assumed by PkgDenote is checked on "
             "every run against real netlists. Valid designs the library rejects are counted, not violations. Bounds: widths <= 6, <= 4 "
             "instances per module, depth <= 3; quick samples the larger universes; random designs 300 quick / 12,000 thorough.",
        ref="6 C01", technique="TLA+ denotational specs (Design/Package/Valid) + TLC batch validation of exported packages"),
    "C02": dict(
        text="Valid!FaultClauses names, per design, every violated well-formedness rule; a design with a fault C02 lists must make "
             "to_proto, netlist and (except for export-only faults) elaborate raise. Faulty designs are all universe designs TLC classifies "
             "as faulty plus single-fault mutants planted at every site of valid designs (harness/faults.py: missing/extra connection, "
             "references to missing ports/members, out-of-range/empty indices, width changes through every wrapper, foreign/orphan "
             "signals, referenced no-connects, circular instantiation, unnamed and name-clashing modules). TLC confirms each mutant "
             "really is faulty, so a legal mutant raises no alarm.",
        note="Trusted: builder, planter, TLC. Rules C02 does not list (no-connect inside a concat/anonymous bundle, ...) put a design in "
             "status 'unspecified' and nothing is demanded. Orphan instances/bundles are not planted yet.",
        ref="6 C02", technique="TLA+ validity spec (Valid) + fault enumeration replayed through three entry points + TLC classification",
        category="fault_enumeration"),
    "C09": dict(
        text="sched/GenCache.tla models generator.run and its process-global cache (hit / miss+pending / nested body calls / finish+name) "
             "and is model-checked (Memo, RunOnce, Distinct, NameStable, NameInjective, NoStalePending) over 4 generator kinds "
             "(fresh, nesting, pass-through, recursive) x 4 parameter spellings (two of them equal) x 2 call forms, all call sequences "
             "of length 3, which TLC also emits as cases; seeded sequences add optional/enum/nested/Prefixed/Scalar/Module-valued and "
             "adversarial string parameters. Every sequence is replayed on real @generator functions whose bodies log themselves; "
             "Trace_GenCache replays the cache discipline on the recorded calls and checks identity, single body execution, distinct "
             "modules, name stability and uniqueness, a joint export, and that <<generator, parameter value>> has one name across all "
             "traces of the batch (different orders and processes).",
        note="Trusted: harness/props/c09.py incl. the canonical parameter encoding that defines 'equal parameters' independently of the "
             "library's __eq__/__hash__; TLC. Name independence from the process is sampled (16 worker processes, shuffled orders), not exhaustive.",
        ref="6 C09", technique="TLA+ state machine (GenCache) model-checked + TLC-enumerated call sequences replayed + TLC trace validation"),
    "C14": dict(
        text="api/Prefixed.tla defines the exact decimal value of a prefixed number over lib/BigNum.tla (digit-sequence arithmetic, "
             "self-checked by MC_BigNum against TLC's native integers on all small operands). For all 441 ordered prefix pairs x "
             "mantissa pairs (fixed adversarial alphabet + seeded random 1-25 digit mantissas) the real add/sub/mul, the six "
             "comparisons and hash equality, and per operand neg/abs/scale-to-each-prefix/auto-scale/int/float are executed and logged "
             "as exact digits; TLC (Trace_Prefixed) recomputes every result exactly and checks trichotomy, the relation lattice, "
             "agreement with exact comparison outside the tolerance, hash consistency, integer part and nearest-float.",
        note="Trusted: Decimal.as_tuple projection, Decimal(float) exact expansion and math.nextafter in harness/props/c14.py; TLC. "
             "Tolerance read in the implementation's favour (1e-20 in units of the larger prefix and of UNIT). Mantissa pairs are sampled "
             "per prefix pair (quick 12+random, thorough 60+random); prefix pairs are exhaustive.",
        ref="6 C14", technique="TLA+ functional spec (Prefixed over BigNum) + TLC batch validation of recorded operations"),
    "C03": dict(
        text="lib/PySeq.tla states Python index/slice semantics from the language reference and is itself model-checked against an "
             "independent set-based reading (MC_PySeq, every (n, index) for n <= 4). Index/slice/concat expressions - exhaustive "
             "single-level over widths, bounds in [-2W,2W], all steps, on signals, slices, concats, port and bundle references; "
             "exhaustive concats and depth-2 nesting for small widths; seeded random depth 2-3 - are built with the real library, "
             "connected and exported; TLC (Trace_Slice) classifies each (must accept / must reject / either) and compares the "
             "reported width and the bit sequence named in the exported package with SliceSem!Bits.",
        note="Trusted: harness/props/c03.py (driver, reader of the exported connection: slices bot..top inclusive, concat parts "
             "most-significant first as the vlsirtools netlisters read them), TLC. Non-unit-step and out-of-range-bound slices may be "
             "rejected or must be Python-correct. Bounds: quick W=4 (signals) / 2-3 (other kinds); thorough W=6 / 4.",
        ref="6 C03", technique="TLA+ functional spec (PySeq/SliceSem) + TLC batch validation of recorded cases"),
    "C18": dict(
        text="TLC enumerates every edit history of the Namespace model up to the stated depth (history kept in the state: exhaustive "
             "over the bounded alphabet; simulate above it); each history is replayed on a real Module/Bundle and the recorded "
             "trace (namespace, get, attribute access, the six per-kind views, parent pointers, exported package) is validated "
             "step by step by TLC against Namespace!Apply. The insertion algorithm is also model-checked against Coherent.",
        note="Trusted: the Python driver/projector (harness/props/c18.py), TLC and its Json module. Bounded: names {a,b,_p,one reserved}, "
             "6 attribute kinds + one non-HDL value, depth 2-3 exhaustive (quick), depth 3 exhaustive + depth 6 simulated (thorough).",
        ref="6 C18", technique="TLA+ spec (Namespace) + TLC-enumerated histories replayed in code + TLC trace validation"),
}

PENDING_REASON = "no check built for this property"


def main():
    checks = []
    for pid in ALL:
        if pid not in CLAIMED:
            continue
        c = CLAIMED[pid]
        checks.append({
            "property_id": pid,
            "quick_cmd": f"./check {pid} --tier quick",
            "thorough_cmd": f"./check {pid} --tier thorough",
            "evidence_file": f"/verif/evidence/{pid}.json",
            "replay_cmd_template": f"./check {pid} --replay {{path}}",
            "engine": "tlc",
            "level_claimed": {"category": c.get("category", "model_checking"), "text": c["text"], "design_ref": c["ref"]},
            "level_note": c["note"],
            "technique": c["technique"],
        })
    hooks_commits = json.loads((VERIF / "harness" / "hook_commits.json").read_text()) if (VERIF / "harness" / "hook_commits.json").exists() else []
    m = {
        "version": 1,
        "setup_cmd": "./check --setup",
        "hooks": {
            "guard": "HDL21_VERIF",
            "enable": "export HDL21_VERIF=1 (pure Python, no build step; ./check sets it itself)",
            "baseline_off_cmd": "cd /repo && env -u HDL21_VERIF /venv/bin/python -m pytest -ra -q -p no:cacheprovider --timeout=900 --continue-on-collection-errors",
            "source_commits": hooks_commits,
            "add_only": True,
        },
        "engines": [
            {"name": "tlc", "path": "/usr/local/bin/tlc", "serves_properties": sorted(CLAIMED),
             "kind_free_text": "TLC 1.8 explicit-state model checker: exhaustive MC of bounded instances, case generation, batch trace validation"},
            {"name": "apalache-mc", "path": "/usr/local/bin/apalache-mc", "serves_properties": ["C15", "C18"],
             "kind_free_text": "Apalache 0.58 symbolic model checker, thorough tier only and never the deciding engine: inductive invariants (any number of "
                               "steps) of the namespace insertion algorithm (spec/apalache/NsInd.tla; also refutes the pinned tree's variant) and of the PDK "
                               "registry (spec/apalache/PdkInd.tla)"},
        ],
        "checks": checks,
        "notes": "Single entry point ./check; exit 0 held / 1 VIOLATION / 2 machinery failure. known_findings.json lists recorded defects and fix: commits.",
        "not_applicable": [{"property_id": p, "reason": PENDING_REASON} for p in ALL if p not in CLAIMED],
    }
    (VERIF / "MANIFEST.json").write_text(json.dumps(m, indent=1) + "\n")
    print("MANIFEST.json written:", [c["property_id"] for c in checks])


if __name__ == "__main__":
    main()
