"""The repository's own test-suite as a corpus: each test file is run in its own pytest process with the verification hooks on and
harness/suite_plugin.py loaded; returns, per file, the hook-event trace and the exported packages."""
import json
import os
import subprocess
import shutil
from concurrent.futures import ThreadPoolExecutor
from pathlib import Path

from .common import WORK


def test_files(repo):
    out = subprocess.run(["git", "-C", repo, "ls-files"], capture_output=True, text=True).stdout.split()
    fs = [f for f in out if f.endswith(".py") and os.path.basename(f).startswith("test_") and "cookiecutter" not in f]
    return sorted(fs)


def run_file(args):
    repo, f, outdir = args
    shutil.rmtree(outdir, ignore_errors=True)
    os.makedirs(outdir, exist_ok=True)
    e = dict(os.environ)
    e.update({"HDL21_VERIF": "1", "SUITE_OUT": str(outdir), "PYTHONPATH": "/verif" + (os.pathsep + e["PYTHONPATH"] if e.get("PYTHONPATH") else ""), "PYTHONHASHSEED": "0"})
    p = subprocess.run(["/venv/bin/python", "-m", "pytest", "-q", "-p", "no:cacheprovider", "-p", "harness.suite_plugin", "--timeout=900", f], cwd=repo, env=e,
                       capture_output=True, text=True)
    tail = (p.stdout.strip().splitlines() or [""])[-1]
    evs = []
    ef = Path(outdir) / "events.ndjson"
    if ef.exists():
        evs = [json.loads(l) for l in ef.read_text().splitlines()]
    pk = Path(outdir) / "pkgs.json"
    tests = json.loads(pk.read_text()) if pk.exists() else []
    pkgs = [(t, (Path(outdir) / f"pkg-{k}.bin").read_bytes()) for k, t in enumerate(tests)]
    return {"file": f, "rc": p.returncode, "summary": tail, "events": evs, "pkgs": pkgs}


def collect(files=None, jobs=8):
    from .hd import REPO
    fs = files or test_files(REPO)
    work = WORK / "suite"
    with ThreadPoolExecutor(max_workers=jobs) as ex:
        return list(ex.map(run_file, [(REPO, f, work / f.replace("/", "_")) for f in fs]))
