"""Abstract designs (the JSON vocabulary of spec/core/Design.tla) -> real hdl21 objects, and
vlsir Packages -> the JSON vocabulary of spec/core/Package.tla.

The builder is deliberately literal: one public API call per element of the abstract design.
"""
import json
from typing import Any, Dict, List, Optional

PRIM_PORTS = {  # ports of hdl21 physical primitives as exported under domain hdl21.primitives
    "Mos": ["d", "g", "s", "b"],
}


def py_index(idx):
    if idx["k"] == "int":
        return idx["i"]
    return slice(idx["s"] if idx["hs"] else None, idx["e"] if idx["he"] else None, idx["t"] if idx["ht"] else None)


def I(i):
    return {"k": "int", "i": i, "hs": False, "s": 0, "he": False, "e": 0, "ht": False, "t": 0}


def R(s, e, t=None):
    return {"k": "range", "i": 0, "hs": s is not None, "s": s or 0, "he": e is not None, "e": e or 0,
            "ht": t is not None, "t": t or 0}


# term constructors
def Sig(n): return {"k": "sig", "n": n}
def Slc(of, idx): return {"k": "slice", "of": of, "idx": idx}
def Cat(*parts): return {"k": "cat", "parts": list(parts)}
def Pref(inst, port): return {"k": "pref", "inst": inst, "port": port}
def Nc(id_, name=""): return {"k": "nc", "id": id_, "name": name}
def Bund(n): return {"k": "bund", "n": n}
def Bref(root, *path): return {"k": "bref", "root": root, "path": list(path)}
def Anon(**mem): return {"k": "anon", "mem": [{"n": n, "t": t} for n, t in mem.items()], "dict": False}
def AnonDict(**mem): return {"k": "anon", "mem": [{"n": n, "t": t} for n, t in mem.items()], "dict": True}


class Builder:
    def __init__(self, h, D: dict, style: str = "proc"):
        self.h, self.D, self.style = h, D, style
        self.bundles: Dict[str, Any] = {}
        self.leaves: Dict[str, Any] = {}
        self.mods: Dict[str, Any] = {}
        self.roles: Dict[str, Any] = {}
        self.foreign: Dict[Any, Any] = {}
        self.exts: Dict[str, Any] = {}
        self.pcalls: Dict[Any, Any] = {}
        self.keep: List[Any] = []

    # ---- definitions ----
    def bundle(self, name):
        if name in self.bundles:
            return self.bundles[name]
        h = self.h
        if name == "Diff":
            self.bundles[name] = h.Diff
            return h.Diff
        bd = self.D["bundles"][name]
        b = h.Bundle(name=name)
        roles = bd.get("roles") or []
        if roles:
            from hdl21.role import RoleSet, Role
            from enum import Enum
            if bd.get("anonroles"):
                # roles created without a name (h.Roles(n)) and used by the leaves as such; collected under their attribute names afterwards, as the
                # bundle decorator does once the class body has run
                loose = {r: Role() for r in roles}
            else:
                E = Enum(name + "Roles", {r: r for r in roles})
                b.roles = RoleSet.from_enum(E)
        for s in bd["sigs"]:
            kw = {}
            if s.get("vis", "internal") == "port":
                kw["vis"] = h.signal.Visibility.PORT
                kw["direction"] = getattr(h.signal.PortDir, s.get("dir", "NONE"))
            if s.get("src"):
                kw["src"] = loose[s["src"]] if bd.get("anonroles") else getattr(b.roles, s["src"])
            if s.get("dest"):
                kw["dest"] = loose[s["dest"]] if bd.get("anonroles") else getattr(b.roles, s["dest"])
            b.add(h.Signal(name=s["n"], width=s["w"], **kw))
        if roles and bd.get("anonroles"):
            b.roles = RoleSet.from_dict(loose)
        for sub in bd["subs"]:
            kw = {}
            if sub.get("role"):
                kw["role"] = getattr(self.bundle(sub["of"]).roles, sub["role"])
            bi = self.flip_instance(sub["of"], kw, sub)
            b.add(bi, name=sub["n"])
        self.bundles[name] = b
        return b

    def flip_instance(self, of, kw, rec):
        """A bundle instance, flipped by the recorded steps: 'ctor' = constructor flag, 'fn' = hdl21.flipped() (each toggles)."""
        h = self.h
        steps = [x for x in (rec.get("flipstyle") or "").split("+") if x in ("ctor", "fn")]
        if not steps and rec.get("flipped"):
            steps = ["ctor"]
        bi = self.bundle(of)(flipped=True, **kw) if "ctor" in steps else self.bundle(of)(**kw)
        for x in steps:
            if x == "fn":
                bi = h.flipped(bi)
        return bi

    def leaf(self, ref):
        if ref in self.leaves:
            return self.leaves[ref]
        h = self.h
        ports = self.D["leaves"][ref]
        if ref in PRIM_PORTS:
            call = getattr(h.primitives, ref)()
        else:
            # (parameters as a dict only where the design gives this leaf parameter values: a call with dict parameters cannot itself be a
            #  generator parameter, which C19's unit cells are)
            haspv = any(i.get("pv") and i["of"].get("ref") == ref for m in self.D["mods"].values() for i in m["insts"])
            em = h.ExternalModule(name=ref, port_list=[h.Port(name=p["n"], width=p["w"]) for p in ports if not p.get("late")],
                                  desc="leaf", domain="verif", **({"paramtype": dict} if haspv else {}))
            if any(p.get("late") for p in ports):
                _ = dict(em.ports)          # the device has been looked at (used) before it grows a port
            for p in ports:
                if p.get("late"):
                    em.port_list.append(h.Port(name=p["n"], width=p["w"]))      # a port added to the device after it was made
            call = em()
            self.exts[ref] = em
        self.leaves[ref] = call
        return call

    def leaf_with_params(self, ref, pv):
        """a call of external leaf `ref` with parameter values pv = [[name, int], ...] (calls with equal values are shared, as designers do)"""
        self.leaf(ref)
        key = (ref, json.dumps(pv))
        if key not in self.pcalls:
            # (a list stands for a tuple: a value the exporter has no representation for - the call can be made, the export fails)
            self.pcalls[key] = self.exts[ref]({n: tuple(v) if isinstance(v, list) else v for n, v in pv})
        return self.pcalls[key]

    def target(self, of, pv=None):
        if of["k"] == "mod":
            return self.module(of["ref"])
        if pv and of["ref"] not in PRIM_PORTS:
            return self.leaf_with_params(of["ref"], pv)
        return self.leaf(of["ref"])

    # ---- terms ----
    def term(self, M, t, ncs, insts):
        h = self.h
        k = t["k"]
        if k == "sig":
            return M[t["n"]]
        if k == "slice":
            return self.term(M, t["of"], ncs, insts)[py_index(t["idx"])]
        if k == "cat":
            return h.Concat(*[self.term(M, p, ncs, insts) for p in t["parts"]])
        if k == "pref":
            return getattr(insts[t["inst"]], t["port"])
        if k == "nc":
            if t["id"] not in ncs:
                ncs[t["id"]] = h.NoConn(name=t["name"] or None)
            return ncs[t["id"]]
        if k == "fsig":
            return self.foreign_signal(t, M)
        if k == "bund":
            return M[t["n"]]
        if k == "bref":
            x = M[t["root"]]
            for seg in t["path"]:
                x = getattr(x, seg)
            return x
        if k == "anon":
            mem = {m["n"]: self.term(M, m["t"], ncs, insts) for m in t["mem"]}
            if t.get("dict"):
                return mem
            return h.AnonymousBundle(**mem)
        raise ValueError(k)

    def foreign_signal(self, t, M=None):
        """A signal owned by nobody ("orphan") or by another module (named by t["owner"])."""
        h = self.h
        if t["owner"] == "copyof":
            # a copy of a signal this module owns, itself never added to any module
            import copy
            key = ("copyof", t["n"], id(M))
            if key not in self.foreign:
                self.foreign[key] = copy.copy(M[t["n"]])
            return self.foreign[key]
        if t["owner"] == "displaced":
            # a signal this module USED to own: its name has since been bound to another signal (m.s = Signal(); old = m.s; m.s = Signal())
            import copy
            key = ("displaced", t["n"], id(M))
            if key not in self.foreign:
                was = M[t["n"]]
                owner = getattr(was, "_parent_module", None)
                if owner is not None:
                    now = copy.copy(was)
                    owner.add(now)
                    M[t["n"]] = now
                else:
                    was = copy.copy(was)          # (class-style bodies have no module yet: a never-added copy stands in)
                self.foreign[key] = was
            return self.foreign[key]
        key = (t["owner"], t["n"])
        if t["owner"].startswith("design:"):
            # a signal of another module of this very design
            return self.module(t["owner"][len("design:"):]).get(t["n"])
        if key not in self.foreign:
            sig = h.Signal(name=t["n"], width=t["w"])
            if t["owner"] != "orphan":
                other = h.Module(name=t["owner"])
                other.add(sig)
                self.keep.append(other)
            self.foreign[key] = sig
        return self.foreign[key]

    def module(self, name):
        if name in self.mods:
            return self.mods[name]
        h = self.h
        if self.style == "gen":
            # the module is made inside a generator body (procedurally), as generated designs are
            outer = self

            def body(params):
                return outer._module_body(name, "proc", anonymous=True)
            body.__name__ = self.D["mods"][name].get("name", name)
            body.__annotations__ = {"params": h.HasNoParams, "return": h.Module}
            M = h.generator(body)(h.NoParams)
        else:
            M = self._module_body(name, self.style)
        self.mods[name] = M
        return M

    def _module_body(self, name, style, anonymous=False):
        h = self.h
        md = self.D["mods"][name]
        mname = md.get("name", name)
        ns = {}           # local namespace: name -> object, in declaration order
        M = None
        if style != "class":
            M = h.Module(name=None if (anonymous or mname == "") else mname)
            if not anonymous:
                self.mods[name] = M      # registered before its instances are made, so that circular designs can be written
        for s in md["sigs"]:
            kw = {}
            if s["port"]:
                kw["vis"] = h.signal.Visibility.PORT
                kw["direction"] = getattr(h.signal.PortDir, s.get("dir", "NONE"))
            ns[s["n"]] = h.Signal(width=s["w"], **kw)
        for b in md["bundles"]:
            kw = {"port": b["port"]}
            if b.get("role"):
                kw["role"] = getattr(self.bundle(b["of"]).roles, b["role"])
            ns[b["n"]] = self.flip_instance(b["of"], kw, b)
        if md.get("mulbundles"):
            # bundle instances of one type written as `a, b, c = 3 * B()`: the copies of one prototype
            groups = {}
            for b in md["bundles"]:
                if not b.get("flipped") and not b.get("flipstyle") and not b.get("role"):
                    groups.setdefault((b["of"], b["port"]), []).append(b["n"])
            for (of, port), names in groups.items():
                if len(names) > 1:
                    for n, inst_ in zip(names, len(names) * self.bundle(of)(port=port)):
                        ns[n] = inst_
        insts = {}
        for i in md["insts"]:
            tgt = self.target(i["of"], i.get("pv"))
            if i["kind"] == "inst":
                io = h.Instance(of=tgt)
            elif i["kind"] == "array":
                io = h.InstanceArray(of=tgt, n=i["arr"])
            elif i["kind"] == "pair":
                if i.get("ibt"):
                    # an instance-bundle type of the designer's own (h.InstanceBundleType over one of the design's bundles), as h.Pair is over h.Diff
                    key = "ibt:" + i["ibt"]
                    if key not in self.bundles:
                        self.bundles[key] = h.InstanceBundleType(name=i["ibt"] + "Insts", bundle=self.bundle(i["ibt"]))
                    io = self.bundles[key](of=tgt)
                else:
                    io = h.Pair(of=tgt)
            else:
                raise ValueError(i["kind"])
            ns[i["n"]] = io
            insts[i["n"]] = io
        if style != "class":
            order = md.get("order") or list(ns)
            for n in order:
                M.add(ns[n], name=n)
        ncs = {}
        for i in md["insts"]:
            io = insts[i["n"]]
            if style in ("call", "class"):
                io(**{c["p"]: self.term(ns, c["t"], ncs, insts) for c in i["conns"]})
            else:
                for n, c in enumerate(i["conns"]):
                    v = self.term(ns, c["t"], ncs, insts)
                    if style == "assign" or (style == "mixed" and n % 2):
                        setattr(io, c["p"], v)
                    else:
                        io.connect(c["p"], v)
        if style == "class":
            order = md.get("order") or list(ns)
            M = h.module(type(mname, (), {n: ns[n] for n in order}))
        return M

    def build(self):
        return self.module(self.D["top"])


def make_namesake(h, name):
    """A module called `name` made HERE, i.e. with the same qualified name as the builder's modules of that name, but another module: its bundle port
    `bp` is of another bundle type (used by C07: elaborating a namesake in between may not disturb the first module)."""
    other = h.Bundle(name="Bother")
    other.y, other.x, other.zz = h.Signal(), h.Signal(width=2), h.Signal()
    twin = h.Module(name=name)
    twin.bp = other(port=True)
    twin.p = h.Port()
    return twin


def make_decoy_unit(h, name):
    """A module called `name` made HERE (same qualified name as the builder's module of that name) with other ports and other contents: a unit cell
    that went through a built-in generator earlier in the process (C19)."""
    decoy = h.Module(name=name)
    decoy.a, decoy.b, decoy.zz = h.Ports(3)
    decoy.r = h.primitives.IdealResistor(r=1)(p=decoy.a, n=decoy.b)
    decoy.r2 = h.primitives.IdealResistor(r=1)(p=decoy.zz, n=decoy.b)
    return decoy


def build(h, D, style="proc"):
    return Builder(h, D, style).build()


# ------------------------------------------------------------------ package projection
def proj_target(t):
    st = t.WhichOneof("stype")
    if st == "sig":
        return {"k": "sig", "n": t.sig, "top": 0, "bot": 0, "parts": []}
    if st == "slice":
        return {"k": "slice", "n": t.slice.signal, "top": t.slice.top, "bot": t.slice.bot, "parts": []}
    if st == "concat":
        return {"k": "cat", "n": "", "top": 0, "bot": 0, "parts": [proj_target(p) for p in t.concat.parts]}
    raise ValueError(st)


DIRS = {0: "INPUT", 1: "OUTPUT", 2: "INOUT", 3: "NONE"}


def proj_package(pkg, top_suffix: Optional[str] = None) -> dict:
    mods = {}
    order = []
    leaves = {}
    exts = []
    for em in pkg.ext_modules:
        ports = [{"n": p.signal, "w": next((s.width for s in em.signals if s.name == p.signal), 0)} for p in em.ports]
        leaves[em.name.name] = ports
        exts.append({"name": em.name.name, "domain": em.name.domain, "ports": ports})
    for m in pkg.modules:
        insts = []
        for i in m.instances:
            which = i.module.WhichOneof("to")
            if which == "local":
                of = {"k": "mod", "ref": i.module.local, "domain": ""}
            else:
                of = {"k": "ext", "ref": i.module.external.name, "domain": i.module.external.domain}
                if i.module.external.name not in leaves:
                    # a primitive: its terminals are those the instance connects (C06's PkgWF checks them against the spec's table)
                    leaves[i.module.external.name] = [{"n": c.portname, "w": 1} for c in i.connections]
            insts.append({"n": i.name, "of": of, "conns": [{"p": c.portname, "t": proj_target(c.target)} for c in i.connections],
                          "pv": [[p.name, p.value.int64_value if p.value.WhichOneof("value") == "int64_value" else -1] for p in i.parameters]})
        mods[m.name] = {"sigs": [{"n": s.name, "w": s.width} for s in m.signals],
                        "ports": [{"n": p.signal, "dir": DIRS.get(p.direction, "NONE")} for p in m.ports],
                        "insts": insts}
        order.append(m.name)
    top = ""
    if top_suffix is not None:
        cands = [n for n in order if n == top_suffix or n.endswith("." + top_suffix)]
        top = cands[-1] if cands else ""
    return {"mods": mods, "order": order, "leaves": leaves, "exts": exts, "top": top}
