"""Plant single faults (C02's fault classes) at every site of a valid abstract design.
Only planting happens here; whether the result really is faulty is decided by TLC (Valid!FaultClauses)."""
import copy

from .design import I, R, Sig, Slc, Cat, Pref, Nc, Bund, Bref, Anon


def sites(D):
    """(module name, instance index, connection index) of every connection of a non-probe instance."""
    for mn, m in D["mods"].items():
        for ii, inst in enumerate(m["insts"]):
            if inst["n"].startswith("pr_"):
                continue
            for ci in range(len(inst["conns"])):
                yield mn, ii, ci


def sig_terms(t, path=()):
    """paths to every signal-like sub-term position that can be replaced (returns list of (container, key))"""
    out = []
    if t["k"] == "slice":
        out.append((t, "of"))
        out += sig_terms(t["of"])
    elif t["k"] == "cat":
        for k, p in enumerate(t["parts"]):
            out.append((t["parts"], k))
            out += sig_terms(p)
    elif t["k"] == "anon":
        for m in t["mem"]:
            out.append((m, "t"))
            out += sig_terms(m["t"])
    return out


def plant(D):
    """yield (fault class, mutated design)"""
    for mn, ii, ci in sites(D):
        m = D["mods"][mn]
        inst = m["insts"][ii]
        conn = inst["conns"][ci]
        sigs = m["sigs"]
        others = [x["n"] for x in m["insts"] if x["n"] != inst["n"] and not x["n"].startswith("pr_")]

        def mut(fn, cls):
            D2 = copy.deepcopy(D)
            i2 = D2["mods"][mn]["insts"][ii]
            fn(D2, D2["mods"][mn], i2, i2["conns"][ci])
            return cls, D2
        yield mut(lambda D2, m2, i2, c2: i2["conns"].pop(ci), "missing_connection")
        if sigs:
            yield mut(lambda D2, m2, i2, c2: i2["conns"].append({"p": "zz", "t": Sig(sigs[0]["n"])}), "extra_connection")
        if others:
            yield mut(lambda D2, m2, i2, c2: c2.__setitem__("t", Pref(others[0], "zz")), "ref_to_missing_port")
        for b in m["bundles"][:1]:
            yield mut(lambda D2, m2, i2, c2: c2.__setitem__("t", Bref(b["n"], "zz")), "ref_to_missing_bundle_member")
        for s in sigs[:2]:
            yield mut(lambda D2, m2, i2, c2, s=s: c2.__setitem__("t", Slc(Sig(s["n"]), I(s["w"]))), "index_out_of_range")
            yield mut(lambda D2, m2, i2, c2, s=s: c2.__setitem__("t", Slc(Sig(s["n"]), I(-s["w"] - 1))), "index_out_of_range")
            yield mut(lambda D2, m2, i2, c2, s=s: c2.__setitem__("t", Slc(Sig(s["n"]), R(1, 1))), "empty_slice")
            yield mut(lambda D2, m2, i2, c2, s=s: c2.__setitem__("t", Slc(Sig(s["n"]), R(s["w"], None))), "empty_slice")
            # width change through every wrapper kind
            yield mut(lambda D2, m2, i2, c2, s=s: c2.__setitem__("t", Cat(c2["t"], Sig(s["n"])) if c2["t"]["k"] in ("sig", "slice", "cat", "pref", "bref") else Sig(s["n"])), "width_mismatch")
            yield mut(lambda D2, m2, i2, c2, s=s: c2.__setitem__("t", {"k": "fsig", "n": "orph", "w": s["w"], "owner": "orphan"}), "foreign_or_orphan_signal")
            yield mut(lambda D2, m2, i2, c2, s=s: c2.__setitem__("t", {"k": "fsig", "n": s["n"], "w": s["w"], "owner": "Elsewhere"}), "foreign_or_orphan_signal")
        # a signal stolen from a module of the same hierarchy: the target module's own port signal (which that module uses itself)
        if inst["of"]["k"] == "mod" and inst["of"]["ref"] in D["mods"]:
            child = D["mods"][inst["of"]["ref"]]
            for cs in child["sigs"]:
                if cs["n"] == conn["p"]:
                    yield mut(lambda D2, m2, i2, c2, cs=cs: c2.__setitem__("t", {"k": "fsig", "n": cs["n"], "w": cs["w"], "owner": "design:" + i2["of"]["ref"]}),
                              "foreign_or_orphan_signal")
                    if cs["w"] > 1:
                        yield mut(lambda D2, m2, i2, c2, cs=cs: c2.__setitem__("t", Cat(Slc({"k": "fsig", "n": cs["n"], "w": cs["w"], "owner": "design:" + i2["of"]["ref"]}, R(1, None)),
                                                                                       Slc({"k": "fsig", "n": cs["n"], "w": cs["w"], "owner": "design:" + i2["of"]["ref"]}, I(0)))),
                                  "foreign_inside_term")
        for s in sigs[:1]:
            # an orphan that is a COPY of one of the module's own signals (it still looks like the original)
            yield mut(lambda D2, m2, i2, c2, s=s: c2.__setitem__("t", {"k": "fsig", "n": s["n"], "w": s["w"], "owner": "copyof"}), "foreign_or_orphan_signal")
            # a signal the module used to own, displaced by binding its name again
            yield mut(lambda D2, m2, i2, c2, s=s: c2.__setitem__("t", {"k": "fsig", "n": s["n"], "w": s["w"], "owner": "displaced"}), "foreign_or_orphan_signal")
        if inst["of"]["k"] == "ext" and inst["kind"] == "inst" and ci == 0:
            # the external device got one more port after it was made; the instance does not connect it
            def lateport(D2, m2, i2, c2):
                ref = i2["of"]["ref"]
                D2["leaves"] = dict(D2["leaves"])
                D2["leaves"][ref + "_late"] = list(D2["leaves"][ref]) + [{"n": "zz_late", "w": 1, "late": True}]
                i2["of"] = {"k": "ext", "ref": ref + "_late"}
            yield mut(lateport, "missing_connection")
        # an anonymous bundle with a member the port's bundle does not have
        if conn["t"]["k"] == "anon" and sigs:
            yield mut(lambda D2, m2, i2, c2: c2["t"]["mem"].append({"n": "zz", "t": Sig(sigs[0]["n"])}), "ref_to_missing_bundle_member")
            # ... the same one level down: inside a nested anonymous bundle given for a sub-bundle of the port
            for mi, mem in enumerate(conn["t"]["mem"]):
                if mem["t"]["k"] == "anon":
                    yield mut(lambda D2, m2, i2, c2, mi=mi: c2["t"]["mem"][mi]["t"]["mem"].append({"n": "zz", "t": Sig(sigs[0]["n"])}), "ref_to_missing_bundle_member")
        # faults inside the term: at every replaceable position
        t = conn["t"]
        for pos, (cont, key) in enumerate(sig_terms(t)):
            def inner(D2, m2, i2, c2, pos=pos, new=None):
                cont2, key2 = sig_terms(c2["t"])[pos]
                cont2[key2] = new
            yield mut(lambda D2, m2, i2, c2, pos=pos: inner(D2, m2, i2, c2, pos, Nc(99)), "noconn_inside_term")
            if sigs:
                s = sigs[-1]
                yield mut(lambda D2, m2, i2, c2, pos=pos, s=s: inner(D2, m2, i2, c2, pos, Cat(Sig(s["n"]), Sig(s["n"]))), "width_mismatch_inside_term")
                yield mut(lambda D2, m2, i2, c2, pos=pos, s=s: inner(D2, m2, i2, c2, pos, {"k": "fsig", "n": "orph", "w": s["w"], "owner": "orphan"}), "foreign_inside_term")
        # a no-connected port that is also referenced
        if others and inst["kind"] == "inst":
            def ncref(D2, m2, i2, c2):
                c2["t"] = Nc(98)
                for x in m2["insts"]:
                    if x["n"] == others[0] and x["conns"]:
                        x["conns"][0]["t"] = Pref(i2["n"], c2["p"])
            yield mut(ncref, "noconn_port_is_referenced")
    # module-level faults
    for mn in list(D["mods"]):
        D2 = copy.deepcopy(D)
        D2["mods"][mn]["name"] = ""
        yield "unnamed_module", D2
    mods = [mn for mn in D["mods"] if mn != D["top"]]
    for mn in mods[:2]:
        # circular: the child instantiates the top
        D2 = copy.deepcopy(D)
        D2["mods"][mn]["insts"].append({"n": "loop", "kind": "inst", "arr": 0, "of": {"k": "mod", "ref": D["top"]},
                                        "conns": [{"p": s["n"], "t": Sig(D2["mods"][mn]["sigs"][0]["n"])} for s in D["mods"][D["top"]]["sigs"] if s["port"]][:0]})
        yield "circular_instantiation", D2
        # name clash: a second, different module with the same name, instantiated beside the first
        D2 = copy.deepcopy(D)
        twin = copy.deepcopy(D2["mods"][mn])
        twin["sigs"].append({"n": "extra_sig", "w": 1, "port": False, "dir": "NONE"})
        twin["name"] = D2["mods"][mn].get("name", mn)
        D2["mods"][mn + "_twin"] = twin
        top = D2["mods"][D["top"]]
        for x in list(top["insts"]):
            if x["of"]["k"] == "mod" and x["of"]["ref"] == mn:
                y = copy.deepcopy(x)
                y["n"] = x["n"] + "_tw"
                y["of"]["ref"] = mn + "_twin"
                top["insts"].append(y)
                break
        yield "module_name_clash", D2
        # name clash between a module and the module that (directly or indirectly) instantiates it
        D2 = copy.deepcopy(D)
        D2["mods"][mn]["name"] = D2["mods"][D["top"]].get("name", D["top"])
        yield "module_name_clash", D2


def _has_nested_anon(D):
    return any(c["t"]["k"] == "anon" and any(mem["t"]["k"] == "anon" for mem in c["t"]["mem"])
               for m in D["mods"].values() for i in m["insts"] for c in i["conns"])


def plant_all(base, tier, rnd):
    """mutants of (a sample of) the valid-looking base designs; returns [(family, design)]"""
    out = []
    per_fam = {}
    for fam, D in base:
        per_fam.setdefault(fam, []).append(D)
    nbase = 12 if tier == "quick" else 120
    for fam, ds in per_fam.items():
        pick = rnd.sample(ds, min(nbase, len(ds)))
        # designs with constructs few designs have are always among the bases (a seeded sample of a dozen would rarely hold one)
        rare = [D for D in ds if _has_nested_anon(D) and D not in pick]
        pick += rare[:3]
        for D in pick:
            for cls, D2 in plant(D):
                out.append((fam + "+" + cls, D2))
    return out
