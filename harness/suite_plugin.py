"""pytest plugin (loaded with -p harness.suite_plugin, PYTHONPATH=/verif, HDL21_VERIF=1): records, for one pytest process running part of the
repository's own test-suite, (a) every elaboration-pass visit reported by the hooks, bracketed by call_begin / call_end events placed around
Elaborator.elaborate, and (b) every package the exporter returned.  Written to $SUITE_OUT/events.ndjson and $SUITE_OUT/pkg-<k>.bin.

Modules are identified by a serial number given at first sight (names are not unique in tests); the objects are kept alive so that ids are not re-used.
"""
import json
import os

OUT = os.environ.get("SUITE_OUT", "")
state = {"events": [], "ids": {}, "keep": [], "test": "", "npkg": 0, "depth": 0, "pkgs": []}


def mid(m):
    k = id(m)
    if k not in state["ids"]:
        state["ids"][k] = f"{getattr(m, 'name', None) or 'anon'}#{len(state['ids'])}"
        state["keep"].append(m)
    return state["ids"][k]


def pytest_configure(config):
    if not OUT:
        return
    from hdl21 import _verif
    from hdl21.elab import elab as E
    from hdl21.elab.passes.base import ElabPass
    default = [p.__name__ for p in E.Elaborator.default().passes]
    pos = {n: k + 1 for k, n in reversed(list(enumerate(default)))}
    kinds = []
    for p in E.Elaborator.default().passes:
        n = p.__name__
        kinds.append("mark" if n == "MarkModules" else "check" if ("ConnTypes" in n or "Orphanage" in n) else "rewrite")

    def owner(cls):
        for c in cls.__mro__:
            if "CLASS_LEVEL_CACHE" in c.__dict__ and c.__dict__["CLASS_LEVEL_CACHE"] is not None:
                return c.__name__
        return cls.__name__

    def sink(ev, f):
        if ev == "export":
            state["pkgs"].append((state["test"], f["pkg"].SerializeToString()))
            return
        p = f["elabpass"]
        cls = type(p)
        cache = cls.CLASS_LEVEL_CACHE
        state["events"].append({"ev": ev, "pos": pos.get(cls.__name__, 0), "cache": owner(cls), "mod": mid(f["module"]), "ndone": len(cache.done),
                                "pending": sorted(mid(m) for m in cache.pending), "test": state["test"],
                                "elab": getattr(f["module"], "_elaborated", None) is not None})
    _verif.set_sink(sink)
    orig = E.Elaborator.elaborate

    def elaborate(self, top):
        is_default = [p.__name__ for p in self.passes] == default
        state["depth"] += 1
        state["events"].append({"ev": "call_begin", "np": len(default), "kindof": kinds, "strict": is_default, "nested": state["depth"] > 1, "test": state["test"],
                                "caches": [owner(p) for p in self.passes]})
        raised = True
        try:
            r = orig(self, top)
            raised = False
            return r
        finally:
            state["depth"] -= 1
            state["events"].append({"ev": "call_end", "raised": raised, "nested": state["depth"] > 0, "test": state["test"]})
    E.Elaborator.elaborate = elaborate


def pytest_runtest_logstart(nodeid, location):
    state["test"] = nodeid


def pytest_sessionfinish(session, exitstatus):
    if not OUT:
        return
    os.makedirs(OUT, exist_ok=True)
    with open(os.path.join(OUT, "events.ndjson"), "w") as fh:
        for k, e in enumerate(state["events"], 1):
            e["seq"] = k
            for key, d in (("pos", 0), ("cache", ""), ("mod", ""), ("ndone", 0), ("pending", []), ("np", 0), ("kindof", []), ("raised", False), ("strict", True), ("nested", False), ("caches", []), ("elab", False)):
                e.setdefault(key, d)
            fh.write(json.dumps(e, separators=(",", ":")) + "\n")
    with open(os.path.join(OUT, "pkgs.json"), "w") as fh:
        json.dump([t for t, _ in state["pkgs"]], fh)
    for k, (t, b) in enumerate(state["pkgs"]):
        with open(os.path.join(OUT, f"pkg-{k}.bin"), "wb") as fh:
            fh.write(b)
