"""C19 - built-in generators build the documented topologies.

For every n in 1..N, every unit cell (primitives with 2-4 ports, external modules, modules with scalar / bus / bundle ports) and every
ordered pair of distinct unit ports, given by name and by Signal, Series (and MosStack over drain/source, and Wrapper) is called and
exported.  TLC (Trace_Builtins) builds the documented topology with Builtins!SeriesDesign / WrapperDesign and requires the package to
denote it (leaf table, ports, partition of nets).
"""
import itertools
import json
import random
from pathlib import Path

from .. import tlc, universe as U
from ..common import Outcome, Violation, WORK, NPROC, pool_map
from ..design import Builder, proj_package, Sig, Slc, I, Bref
from . import conn

PID = "C19"

UNITS = {
    # name: (kind, ports [(n, w)], bundle ports [(n, of)])
    "res": ("prim:PhysicalResistor", [("p", 1), ("n", 1)], []),
    "res3": ("prim:ThreeTerminalResistor", [("p", 1), ("n", 1), ("b", 1)], []),
    "mos": ("prim:Mos", [("d", 1), ("g", 1), ("s", 1), ("b", 1)], []),
    "ext3": ("ext:E3", [("x", 1), ("y", 1), ("z", 1)], []),
    "extbus": ("ext:EB", [("x", 1), ("y", 1), ("bus", 3)], []),
    "mod": ("mod:UM", [("a", 1), ("b", 1), ("c", 2)], []),
    # unit ports named like what the generators themselves create inside (signal i, array units, instance inner)
    "ext_i": ("ext:EI", [("x", 1), ("y", 1), ("i", 1)], []),
    "ext_units": ("ext:EU", [("x", 1), ("y", 1), ("units", 1)], []),
    "ext_inner": ("ext:EN", [("x", 1), ("y", 1), ("inner", 1)], []),
    # ... and like the first alternatives the generators fall back to as well
    "ext_i2": ("ext:EI2", [("x", 1), ("y", 1), ("i", 1), ("i_", 1)], []),
    "ext_units2": ("ext:EU2", [("x", 1), ("y", 1), ("units", 1), ("units_", 1), ("units__", 1)], []),
    "ext_inner2": ("ext:EN2", [("x", 1), ("y", 1), ("inner", 1), ("inner_", 1)], []),
    "modbundle": ("mod:UB", [("a", 1), ("b", 1)], [("bp", "B1")]),
    # bundle-valued ports named like what the generators create inside: such a port is in the module's namespace but not among its (signal) ports
    "modbundle_inner": ("mod:UBN", [("a", 1), ("b", 1)], [("inner", "B1")]),
    "modbundle_i": ("mod:UBI", [("a", 1), ("b", 1)], [("i", "B1")]),
    "modbundle_units": ("mod:UBU", [("a", 1), ("b", 1)], [("units", "B1")]),
    # transistor-like devices whose ports are NOT listed drain, gate, source, bulk (as Sky130's five-terminal nfet_20v0_iso: g d s b sub)
    "mos5": ("ext:M5", [("g", 1), ("d", 1), ("s", 1), ("b", 1), ("sub", 1)], []),
    "mos4r": ("ext:M4R", [("s", 1), ("b", 1), ("g", 1), ("d", 1)], []),
    # a unit that is itself what MosStack made (a two-transistor stack): n instances OF THE UNIT, not 2n transistors
    "stack2": ("gen:STK2", [("d", 1), ("g", 1), ("s", 1), ("b", 1)], []),
}


def unit_design(uname):
    kind, ports, bports = UNITS[uname]
    leaves = dict(U.LEAVES)
    mods = {}
    bundles = {}
    k, ref = kind.split(":")
    if k == "prim":
        leaves[ref] = [{"n": n, "w": w} for n, w in ports]
        of = {"k": "ext", "ref": ref}
    elif k == "ext":
        leaves[ref] = [{"n": n, "w": w} for n, w in ports]
        of = {"k": "ext", "ref": ref}
    elif k == "gen":
        leaves["Mos"] = [{"n": n, "w": 1} for n in ("d", "g", "s", "b")]
        sigs = [U.sig(n, w, True) for n, w in ports] + [U.sig("mid", 1)]
        insts = [U.inst("units_0", "Mos", [("d", Sig("d")), ("g", Sig("g")), ("s", Sig("mid")), ("b", Sig("b"))], k="ext"),
                 U.inst("units_1", "Mos", [("d", Sig("mid")), ("g", Sig("g")), ("s", Sig("s")), ("b", Sig("b"))], k="ext")]
        mods[ref] = U.mod(sigs, insts, [], probes=False)
        of = {"k": "mod", "ref": ref}
    else:
        sigs = [U.sig(n, w, True) for n, w in ports]
        insts = [U.inst("l0", "L1", [("a", Sig(ports[0][0]))], k="ext"), U.inst("l1", "L12", [("a", Sig(ports[1][0])), ("b", Sig("c") if uname == "mod" else Bref(bports[0][0], "y"))], k="ext")]
        bnds = [U.bnd(n, of_, port=True) for n, of_ in bports]
        if bports:
            bundles["B1"] = U.B1
            insts.append(U.inst("l2", "L1", [("a", Bref(bports[0][0], "x"))], k="ext"))
        mods[ref] = U.mod(sigs, insts, bnds, probes=False)
        of = {"k": "mod", "ref": ref}
    D = {"bundles": bundles, "leaves": leaves, "mods": mods, "top": ref if mods else ""}
    for kk, m in mods.items():
        m.setdefault("name", kk)
    return D, of


def run_case(args):
    tid, case = args
    from ..hd import h
    uname, kind = case["unit"], case["kind"]
    ukind, ports, bports = UNITS[uname]
    D, of = unit_design(uname)
    ev = {"tid": tid, "kind": kind, "U": D, "of": of, "ports": [{"n": n, "w": w} for n, w in ports], "bports": [{"n": n, "of": o} for n, o in bports],
          "a": case.get("a", ""), "b": case.get("b", ""), "n": case.get("n", 1), "raised": False, "P": conn.EMPTY_P, "exc": "", "inames": []}
    try:
        bld = Builder(h, D, "proc")
        k, ref = ukind.split(":")
        if k == "prim":
            unit = getattr(h.primitives, ref)() if ref != "PhysicalResistor" else h.primitives.PhysicalResistor()
            uports = unit.ports
        elif k == "ext":
            unit = bld.leaf(ref)
            uports = unit.ports
            if kind in ("series", "mosstack") and tid % 2:
                # history: ANOTHER external module with this one's name and domain (one more port), called with the same parameters, went through
                # the same generator with the same arguments earlier in this process - it is not this unit
                try:
                    twin = h.ExternalModule(name=unit.module.name, port_list=[h.Port(name=n, width=w) for n, w in ports] + [h.Port(name="zz")],
                                            desc="twin", domain=unit.module.domain, paramtype=unit.module.paramtype)(unit.params)
                    if kind == "mosstack":
                        h.generators.MosStack(unit=twin, nser=case["n"])
                    else:
                        tc = (case["a"], case["b"]) if case["by"] == "name" else (twin.ports[case["a"]], twin.ports[case["b"]])
                        h.generators.Series(unit=twin, conns=tc, nser=case["n"])
                except Exception:
                    pass
        elif k == "gen":
            unit = h.generators.MosStack(unit=h.primitives.Mos(), nser=2)
            uports = unit.ports
        else:
            unit = bld.module(ref)
            uports = unit.ports
        if kind == "series" and case["n"] == 1 and k in ("mod", "ext"):
            # history: a DIFFERENT unit of the same name (other ports) went through Series(nser=1) earlier in this process
            if k == "mod":
                from ..design import make_decoy_unit
                decoy = make_decoy_unit(h, ref)          # (made where the builder makes its modules: the two share their qualified name)
            else:
                decoy = h.ExternalModule(name=ref, port_list=[h.Port(name="x"), h.Port(name="y"), h.Port(name="zz")], desc="decoy", domain="elsewhere")()
            try:
                h.generators.Series(unit=decoy, conns=(list(decoy.ports)[0], list(decoy.ports)[1]), nser=1)
            except Exception:
                pass
        if kind == "wrapper":
            m = h.generators.Wrapper(unit)
        elif kind == "mosstack":
            m = h.generators.MosStack(unit=unit, nser=case["n"])
        else:
            conns = (case["a"], case["b"]) if case["by"] == "name" else (uports[case["a"]], uports[case["b"]])
            m = h.generators.Series(unit=unit, conns=conns, nser=case["n"])
        pkg = h.to_proto(m)
        P = proj_package(pkg, None)
        P["top"] = P["order"][-1]
        ev["P"] = P
        ev["inames"] = [i["n"] for i in P["mods"][P["top"]]["insts"]]
    except Exception as ex:
        ev["raised"] = True
        ev["exc"] = f"{type(ex).__name__}: {str(ex).strip().splitlines()[-1][:160] if str(ex).strip() else ''}"
    return ev


def run(tier, seed, replay_file=None):
    o = Outcome(PID, tier, seed)
    N = 6 if tier == "quick" else 20
    o.rule = (f"Series: n in 1..{N} x {len(UNITS)} unit cells (incl. signal AND bundle ports named like the generators' own inner names) x every ordered pair of distinct signal ports x given by name / by Signal; MosStack n in 1..{N}; Wrapper of "
              "every unit; non-trivial = n >= 2 or Wrapper; distinct by case. Exhaustive over that family.")
    o.trusted_base = ["harness/props/c19.py driver", "harness/design.py", "TLC"]
    if replay_file:
        cases = [json.loads(Path(replay_file).read_text())["case"]]
    else:
        cases = []
        for uname, (kind, ports, bports) in UNITS.items():
            cases.append({"kind": "wrapper", "unit": uname})
            for a, b in itertools.permutations([p for p, w in ports], 2):
                for n in range(1, N + 1):
                    for by in ("name", "signal"):
                        if by == "signal" and n not in (1, 2, 3, N) and tier == "quick":
                            continue
                        cases.append({"kind": "series", "unit": uname, "a": a, "b": b, "n": n, "by": by})
        for n in range(1, N + 1):
            for u in ("mos", "mos5", "mos4r", "stack2"):
                cases.append({"kind": "mosstack", "unit": u, "a": "d", "b": "s", "n": n})
    evs = pool_map(run_case, list(enumerate(cases)), chunksize=8)
    files = tlc.split_batches([[e] for e in evs], WORK / "c19", f"tr-{tier}", NPROC)
    res = tlc.validate_batches("trace/Trace_Builtins.tla", "trace/Trace_Builtins.cfg", files, jobs=NPROC, tag="c19val")
    verdicts = {}
    for r in res:
        o.transitions += r.generated
        o.states += r.distinct
        for tid, ok, clause in r.verdicts:
            verdicts[tid] = (ok, clause)
    if len(verdicts) != len(cases):
        raise tlc.TlcError(f"C19: {len(cases)} cases, {len(verdicts)} verdicts")
    o.traces = o.evaluations = len(cases)
    o.exhaustive = True
    nt = 0
    for i, c in enumerate(cases):
        ok, clause = verdicts[i]
        o.cover["kind_" + c["kind"]] = o.cover.get("kind_" + c["kind"], 0) + 1
        o.cover["unit_" + c["unit"]] = o.cover.get("unit_" + c["unit"], 0) + 1
        if evs[i]["raised"]:
            o.cover["raised"] = o.cover.get("raised", 0) + 1
        if c["kind"] == "wrapper" or c.get("n", 1) >= 2:
            nt += 1
        if not ok:
            feats = ["kind_" + c["kind"], "unit_" + c["unit"]] + (["n_1"] if c.get("n") == 1 else [])
            o.violations.append(Violation(clause=clause.split(":")[0], case=c, features=feats, detail={"exc": evs[i]["exc"], "clause": clause}))
    o.distinct_nontrivial = nt
    o.required_cover = ["kind_series", "kind_wrapper", "kind_mosstack"] + ["unit_" + u for u in UNITS]
    rnd = random.Random(seed)
    for i in rnd.sample(range(len(cases)), 2):
        o.samples.append({"case": cases[i], "package_modules": evs[i]["P"]["order"], "verdict": verdicts[i]})
    return o
