"""C10 - bundle ports flatten to the documented names, directions and visibility.

Cases: every single path (depth <= 3) x flip pattern per level (none / constructor flag / flipped()) x six leaf kinds x role relation x
port / internal x width, and small trees (fan-out 2).  Each is a module holding one bundle instance; exported; TLC (Trace_Bundle over
Bundles!FlatLeaves) compares the exported ports and signals.  Connection agreement between the two sides of a bundle connection is
decided for the same trees by the C01 oracle (Trace_Conn).
"""
import itertools
import json
import random
from pathlib import Path

from .. import tlc, universe as U
from ..common import Outcome, Violation, WORK, NPROC, pool_map
from ..design import build, Bund, Bref, Anon, Sig, Slc, I
from . import conn

PID = "C10"
ROLES = ["HOST", "DEVICE", "OTHER"]
PARITY = {"no": False, "ctor": True, "fn": True, "ctor+fn": False, "fn+fn": False, "ctor+fn+fn": True}
LEAFKINDS = ["input", "output", "inout", "undirected", "roled", "plain"]


def leaf(n, kind, w):
    if kind in ("input", "output", "inout", "undirected"):
        d = {"input": "INPUT", "output": "OUTPUT", "inout": "INOUT", "undirected": "NONE"}[kind]
        return {"n": n, "w": w, "vis": "port", "dir": d, "src": "", "dest": ""}
    if kind == "roled":
        return {"n": n, "w": w, "vis": "internal", "dir": "NONE", "src": "HOST", "dest": "DEVICE"}
    return {"n": n, "w": w, "vis": "internal", "dir": "NONE", "src": "", "dest": ""}


def path_cases(maxdepth=3):
    """single-path bundle definitions: B1 -> B2 -> B3, leaf in the deepest."""
    for depth in range(1, maxdepth + 1):
        styles = ["no", "ctor", "fn"] if depth > 1 else ["no", "ctor", "fn", "ctor+fn", "fn+fn", "ctor+fn+fn"]
        for flips in itertools.product(styles, repeat=depth):       # flip at the instance and at each sub level
            for kind in LEAFKINDS:
                for role in ["", "HOST", "DEVICE", "OTHER"]:
                    for port in (True, False):
                        for w in (1, 2):
                            if (kind != "roled" and role not in ("", "HOST")) or (not port and (role or w == 2)):
                                continue
                            bundles = {}
                            names = [f"B{k}" for k in range(1, depth + 1)]
                            for k, bn in enumerate(names):
                                last = k == depth - 1
                                bundles[bn] = {"sigs": [leaf("x", kind, w)] if last else [], "roles": ROLES,
                                               "subs": [] if last else [{"n": "sub", "of": names[k + 1], "flipped": PARITY[flips[k + 1]],
                                                                         "flipstyle": flips[k + 1], "role": role if (k + 1 == depth - 1) else ""}]}
                            inner_role = role if depth == 1 else ""
                            bi = {"n": "bi", "of": "B1", "port": port, "flipped": PARITY[flips[0]], "flipstyle": flips[0], "role": inner_role}
                            yield {"bundles": bundles, "bi": bi}
                            if kind == "roled" and depth <= 2 and w == 1:
                                import copy
                                b2 = copy.deepcopy(bundles)
                                for bn in b2:
                                    b2[bn]["anonroles"] = True
                                yield {"bundles": b2, "bi": dict(bi)}


def name_cases():
    """names with underscores at the seams of the flattened name (the usual spelling for Python keywords: in_, from_): the documented name is the plain
    '_'-join of the path, so in_ + p flattens to in__p"""
    for iname in ("bi", "in_", "b__"):
        for sname in ("sub", "sub_", "s_u"):
            for lname in ("x", "x_", "x_y"):
                for port in (True, False):
                    for depth in (1, 2):
                        kind = "input" if port else "plain"
                        if depth == 1:
                            bundles = {"B1": {"sigs": [leaf(lname, kind, 1)], "roles": ROLES, "subs": []}}
                        else:
                            bundles = {"B1": {"sigs": [], "roles": ROLES, "subs": [{"n": sname, "of": "B2", "flipped": False, "flipstyle": "no", "role": ""}]},
                                       "B2": {"sigs": [leaf(lname, kind, 1)], "roles": ROLES, "subs": []}}
                        yield {"bundles": bundles, "bi": {"n": iname, "of": "B1", "port": port, "flipped": False, "flipstyle": "no", "role": ""}}


def tree_cases(rnd, n):
    """random trees: depth <= 3, fan-out <= 3 (signals + sub-bundles), every leaf kind, flips and roles at every level"""
    out = []
    for _ in range(n):
        bundles = {}
        ctr = [0]
        anon = rnd.random() < 0.3          # roles made with h.Roles(n): no names of their own

        def mk(depth):
            ctr[0] += 1
            bn = f"T{ctr[0]}"
            sigs = [leaf(f"s{k}", rnd.choice(LEAFKINDS), rnd.choice([1, 2])) for k in range(rnd.randint(0 if depth < 3 else 1, 2))]
            subs = []
            if depth < 3:
                for k in range(rnd.randint(0 if sigs else 1, 2)):
                    fs = rnd.choice(list(PARITY))
                    subs.append({"n": f"b{k}", "of": mk(depth + 1), "flipped": PARITY[fs], "flipstyle": fs,
                                 "role": rnd.choice(["", "HOST", "DEVICE", "OTHER"])})
            bundles[bn] = {"sigs": sigs, "subs": subs, "roles": ROLES, "anonroles": anon}
            return bn
        top = mk(1)
        port = rnd.random() < 0.8
        fs = rnd.choice(list(PARITY)) if port else "no"
        bi = {"n": "bi", "of": top, "port": port, "flipped": PARITY[fs], "flipstyle": fs,
              "role": rnd.choice(["", "HOST", "DEVICE", "OTHER"]) if port else ""}
        out.append({"bundles": bundles, "bi": bi})
    return out


def flippable(bundles, bn):
    b = bundles[bn]
    return all(s["vis"] == "port" for s in b["sigs"]) and all(flippable(bundles, s["of"]) for s in b["subs"])


def run_case(args):
    tid, case = args
    from ..hd import h
    D = {"bundles": case["bundles"], "leaves": {}, "top": "M",
         "mods": {"M": {"name": "M", "sigs": [], "bundles": [case["bi"]], "insts": []}}}
    ev = {"tid": tid, "D": {"bundles": case["bundles"]}, "bi": case["bi"], "raised": False, "ports": [], "sigs": []}
    try:
        pkg = h.to_proto(build(h, D, "proc"))
        pm = [m for m in pkg.modules if m.name.endswith(".M")][0]
        w = {s.name: s.width for s in pm.signals}
        dirs = {0: "INPUT", 1: "OUTPUT", 2: "INOUT", 3: "NONE"}
        ev["ports"] = [[p.signal, w[p.signal], dirs[p.direction]] for p in pm.ports]
        pn = {p.signal for p in pm.ports}
        ev["sigs"] = [[s.name, s.width] for s in pm.signals if s.name not in pn]
    except Exception as ex:
        ev["raised"] = True
        ev["exc"] = f"{type(ex).__name__}: {str(ex)[:150]}"
    return ev


def leaves_of(bundles, bn):
    out = []
    for s in bundles[bn]["sigs"]:
        out.append(((s["n"],), s["w"]))
    for sub in bundles[bn]["subs"]:
        out += [((sub["n"],) + p, w) for p, w in leaves_of(bundles, sub["of"])]
    return out


def anon_reversed(bundles, bn, root, path=()):
    """anonymous bundle naming every member of bundle `bn` (reached from instance `root` along `path`) in REVERSED declaration order"""
    b = bundles[bn]
    mem = {}
    for sub in reversed(b["subs"]):
        mem[sub["n"]] = anon_reversed(bundles, sub["of"], root, path + (sub["n"],))
    for s in reversed(b["sigs"]):
        mem[s["n"]] = Bref(root, *(path + (s["n"],)))
    return Anon(**mem)


def conn_design(case, reverse=False):
    """parent connects an internal bundle instance to a child's bundle port; probes on every leaf on both sides"""
    bundles = case["bundles"]
    bi = dict(case["bi"])
    bi["port"] = True
    lv = leaves_of(bundles, bi["of"])
    child = U.mod([], U.bprobes("bi", lv), [bi], probes=False)
    term = anon_reversed(bundles, bi["of"], "pb") if reverse else Bund("pb")
    top = U.mod([], [U.inst("c", "Child", [("bi", term)])] + U.bprobes("pb", lv), [U.bnd("pb", bi["of"])], probes=False)
    d = U.design({"Child": child, "Top": top}, bundles=bundles)
    return d


def conn_design_twice(case):
    """one parent bundle instance tied to TWO bundle-valued ports of one child instance, and one of its leaves tied to two scalar ports of another"""
    bundles = case["bundles"]
    bi = dict(case["bi"])
    bi["port"] = True
    bj = dict(bi, n="bj")
    lv = leaves_of(bundles, bi["of"])
    child = U.mod([], U.bprobes("bi", lv) + U.bprobes("bj", lv), [bi, bj], probes=False)
    insts = [U.inst("c", "Child", [("bi", Bund("pb")), ("bj", Bund("pb"))])]
    mods = {"Child": child}
    if lv:
        path, w = lv[0]
        mods["Two"] = U.mod([U.sig("x", w, True), U.sig("y", w, True)], [U.inst("lx", "L1", [("a", U.bit("x", w, 0))], k="ext"),
                                                                          U.inst("ly", "L1", [("a", U.bit("y", w, w - 1))], k="ext")], probes=False)
        insts.append(U.inst("t", "Two", [("x", Bref("pb", *path)), ("y", Bref("pb", *path))]))
    mods["Top"] = U.mod([], insts + U.bprobes("pb", lv), [U.bnd("pb", bi["of"])], probes=False)
    return U.design(mods, bundles=bundles)


def run(tier, seed, replay_file=None):
    o = Outcome(PID, tier, seed)
    o.rule = ("single-path cases: depth <= 3 x flips (none/ctor/fn per level) x 6 leaf kinds x role relation x port/internal x width - exhaustive; "
              "seeded random trees depth <= 3 fan-out <= 3; the same trees connected parent-to-child for the C01 partition oracle. "
              "Non-trivial = at least one flattened leaf; distinct by case.")
    o.trusted_base = ["harness/props/c10.py driver", "harness/design.py builder", "TLC"]
    rnd = random.Random(seed)
    if replay_file:
        cases = [json.loads(Path(replay_file).read_text())["case"]]
    else:
        cases = list(path_cases(3))
        o.extra["single_path_cases"] = len(cases)
        cases = list(name_cases()) + cases
        cases += tree_cases(rnd, 1500 if tier == "quick" else 60000)
    # a flipped instance of a bundle with non-port leaves is not flippable (documented): such cases may be rejected; keep only flippable flips
    evs = pool_map(run_case, list(enumerate(cases)), chunksize=64)
    files = tlc.split_batches([[e] for e in evs], WORK / "c10", f"tr-{tier}", NPROC)
    res = tlc.validate_batches("trace/Trace_Bundle.tla", "trace/Trace_Bundle.cfg", files, jobs=NPROC, tag="c10val")
    verdicts = {}
    for r in res:
        o.transitions += r.generated
        o.states += r.distinct
        for tid, ok, clause in r.verdicts:
            verdicts[tid] = (ok, clause)
    if len(verdicts) != len(cases):
        raise tlc.TlcError(f"C10: {len(cases)} cases, {len(verdicts)} verdicts")
    o.traces = o.evaluations = len(cases)
    o.exhaustive = True
    for i, case in enumerate(cases):
        ok, clause = verdicts[i]
        k = "port" if case["bi"]["port"] else "internal"
        o.cover[k] = o.cover.get(k, 0) + 1
        if case["bi"]["flipped"]:
            o.cover["flipped_instance"] = o.cover.get("flipped_instance", 0) + 1
        if not ok:
            o.violations.append(Violation(clause=clause, case=case, features=[k], detail=evs[i]))
    o.distinct_nontrivial = len(cases)
    # connection agreement on the trees
    tail = cases[-(300 if tier == "quick" else 3000):]
    cds = [("C10_tree", conn_design(c)) for c in tail] + [("C10_tree_anon_reversed", conn_design(c, True)) for c in tail]
    cds += [("C10_tree_twice", conn_design_twice(c)) for c in tail[:len(tail) // 2]]
    jobs, cevs, cverd, gen = conn.run_designs(cds, "c10conn", styles=("proc",), entries=())
    o.transitions += gen
    for tid, (ok, clause) in cverd.items():
        c = clause.split(":")[0]
        o.cover["conn_" + c] = o.cover.get("conn_" + c, 0) + 1
        if c in ("leaf_table", "observables", "partition"):
            o.violations.append(Violation(clause="connection_" + c, case={"D": cevs[tid]["D"]}, features=["tree_connection"]))
        if c == "rejected_valid":
            # these are plain connections of a bundle instance (or one of its leaves) to the ports of a child - what the property is about:
            # a refusal means the two sides did not come to agree
            o.violations.append(Violation(clause="connection_rejected", case={"D": cevs[tid]["D"]}, features=["tree_connection"],
                                          detail=cevs[tid].get("exc", "")))
    o.traces += len(cds)
    o.required_cover = ["port", "internal", "flipped_instance", "conn_ok_valid"]
    for i in rnd.sample(range(len(cases)), 2):
        o.samples.append({"case": cases[i], "observed_ports": evs[i]["ports"], "observed_signals": evs[i]["sigs"], "verdict": verdicts[i]})
    return o
