"""C16 - flatten() preserves leaf-level connectivity.

Hierarchies of depth <= 3 with shared sub-modules, internal nets at every level, ports passed through several levels, scalar and bus
signals, primitive and external-module leaves - and signal names chosen equal to the ':'-joined names flatten itself generates - are
flattened with hdl21.flatten and exported.  TLC (Trace_Flatten): a flattenable design must not be rejected; the flat module must hold one
leaf instance per leaf device, keep the ports, and induce the same partition of leaf-terminal and port bits as the source (Design!Denote).
"""
import itertools
import json
import random
from pathlib import Path

from .. import tlc, universe as U
from ..common import Outcome, Violation, WORK, NPROC, pool_map
from ..design import build, proj_package, Sig, Slc, Cat, I
from . import conn

PID = "C16"


def designs(tier, rnd):
    out = []
    leaves = dict(U.LEAVES)
    leaves["Mos"] = [{"n": p, "w": 1} for p in ("d", "g", "s", "b")]
    leaf_kinds = [("ext", "L12"), ("prim", "Mos")]

    def leafmod(kind):
        sigs = [U.sig("p", 1, True), U.sig("q", 2, True), U.sig("n", 1)]
        if kind[1] == "L12":
            insts = [U.inst("l", "L12", [("a", Sig("p")), ("b", Sig("q"))], k="ext"), U.inst("l2", "L1", [("a", Sig("n"))], k="ext")]
        else:
            insts = [U.inst("l", "Mos", [("d", Sig("p")), ("g", Sig("n")), ("s", Sig("n")), ("b", Sig("p"))], k="ext"),
                     U.inst("l2", "L12", [("a", Sig("n")), ("b", Sig("q"))], k="ext")]
        return U.mod(sigs, insts, probes=False)

    mids = {
        "thru": lambda: U.mod([U.sig("a", 1, True), U.sig("b", 2, True)], [U.inst("x", "Leafm", [("p", Sig("a")), ("q", Sig("b"))])], probes=False),
        "internal": lambda: U.mod([U.sig("a", 1, True), U.sig("b", 2, True), U.sig("n", 1), U.sig("m2", 2)],
                                  [U.inst("x", "Leafm", [("p", Sig("n")), ("q", Sig("b"))]), U.inst("y", "Leafm", [("p", Sig("a")), ("q", Sig("m2"))]),
                                   U.inst("z", "L1", [("a", Sig("n"))], k="ext")], probes=False),
        "two": lambda: U.mod([U.sig("a", 1, True), U.sig("b", 2, True)],
                             [U.inst("x", "Leafm", [("p", Sig("a")), ("q", Sig("b"))]), U.inst("y", "Leafm", [("p", Sig("a")), ("q", Sig("b"))])], probes=False),
    }
    for lk in leaf_kinds:
        for k0, k1 in itertools.product(mids, mids):
            for shared in (True, False):
                for topleaf in (None, "ext", "prim"):
                    for adv in (None, "m0:n", "m0:x:n", "m1:m2", "n", "port:m0:n", "port:m0:x:n", "m0:x:l", "late:m0:x:l", "late:m1:x:l2", "inst:m0:x:l", "inst:m1:y:l2", "modinst:m0:x"):
                        mods = {"Leafm": leafmod(lk), "M0": mids[k0](), "M1": mids[k0]() if shared else mids[k1]()}
                        if shared:
                            mods.pop("M1")
                        top_sigs = [U.sig("io", 1, True), U.sig("bus", 2, True), U.sig("g", 1), U.sig("hh", 2)]
                        insts = [U.inst("m0", "M0", [("a", Sig("io")), ("b", Sig("hh"))]),
                                 U.inst("m1", "M0" if shared else "M1", [("a", Sig("g")), ("b", Sig("bus"))])]
                        if topleaf == "ext":
                            insts.append(U.inst("tl", "L12", [("a", Sig("g")), ("b", Sig("hh"))], k="ext"))
                        elif topleaf == "prim":
                            insts.append(U.inst("tl", "Mos", [("d", Sig("g")), ("g", Sig("io")), ("s", Sig("g")), ("b", Sig("io"))], k="ext"))
                        m1kind = k0 if shared else k1
                        if adv == "inst:m1:y:l2" and m1kind == "thru":
                            continue        # no such nested leaf: the name would not collide, and could not be told from a path
                        if adv and adv.startswith("modinst:"):
                            # a top-level instance OF A MODULE named like the ':'-joined path of a nested instance: the internal nets of the two
                            # (both called n) get one path-name although they are different nets
                            mods["Adv"] = U.mod([U.sig("a", 1, True), U.sig("n", 1)],
                                                [U.inst("q1", "L1", [("a", Sig("n"))], k="ext"), U.inst("q2", "L12", [("a", Sig("n")), ("b", Sig("n2"))], k="ext"),
                                                 U.inst("q3", "L1", [("a", Sig("a"))], k="ext")], probes=False)
                            mods["Adv"]["sigs"].append(U.sig("n2", 2))
                            insts.append(U.inst(adv[8:], "Adv", [("a", Sig("g"))]))
                        elif adv and adv.startswith("inst:"):
                            # a top-level leaf instance named like the ':'-joined path of a nested leaf
                            insts.append(U.inst(adv[5:], "L1", [("a", Sig("g"))], k="ext"))
                        elif adv:
                            # a designer signal (or port) at the top named like a ':'-joined name flatten generates for an internal net or a leaf;
                            # "late:" - first used by an instance that comes after the hierarchy in walk order
                            isport = adv.startswith("port:")
                            late = adv.startswith("late:")
                            nm = adv.split(":", 1)[1] if (isport or late) else adv
                            w = 2 if nm.endswith("m2") else 1
                            top_sigs.append(U.sig(nm, w, isport))
                            user = U.inst("advl", "L1" if w == 1 else "L12", [("a", Sig(nm))] if w == 1 else [("a", Sig("g")), ("b", Sig(nm))], k="ext")
                            if late:
                                insts.append(user)
                            else:
                                insts.insert(0, user)
                        mods["Top"] = U.mod(top_sigs, insts, probes=False)
                        D = U.design(mods)
                        D["leaves"] = leaves
                        out.append(("hier", D))
    # designs flatten documents as unsupported (slices / concats in connections): must be rejected or flattened correctly
    R_ = lambda s, e, t=None: {"k": "range", "i": 0, "hs": s is not None, "s": s or 0, "he": e is not None, "e": e or 0, "ht": t is not None, "t": t or 0}
    unsup = [(Slc(Sig("bus"), I(0)), None), (None, Cat(Sig("g"), Sig("io"))),
             # all the bits of one signal, but reversed / permuted / with a repeated bit
             (None, Slc(Sig("hh"), R_(None, None, -1))), (None, Cat(Slc(Sig("hh"), I(1)), Slc(Sig("hh"), I(0)))),
             (None, Cat(Slc(Sig("hh"), I(0)), Slc(Sig("hh"), I(1)))), (None, Cat(Slc(Sig("hh"), I(0)), Slc(Sig("hh"), I(0)))),
             (None, Cat(Slc(Sig("bus"), I(1)), Slc(Sig("hh"), I(0)))),
             # ... the same of a PORT of the top (an internal signal seen by one instance only has no observable bit order)
             (None, Slc(Sig("bus"), R_(None, None, -1))), (None, Cat(Slc(Sig("bus"), I(1)), Slc(Sig("bus"), I(0)))),
             (None, Cat(Slc(Sig("bus"), I(0)), Slc(Sig("bus"), I(0))))]
    for ta, tb in unsup:
        mods = {"Leafm": leafmod(leaf_kinds[0]), "M0": mids["thru"]()}
        top_sigs = [U.sig("io", 1, True), U.sig("bus", 2, True), U.sig("g", 1), U.sig("hh", 2)]
        tt = ta if ta is not None else Sig("io")
        bb = tb if tb is not None else Sig("hh")
        mods["Top"] = U.mod(top_sigs, [U.inst("m0", "M0", [("a", tt), ("b", bb)])], probes=False)
        D = U.design(mods)
        D["leaves"] = leaves
        out.append(("unsupported", D))
    if tier == "quick":
        keep = [d for d in out if d[0] == "unsupported"]
        rest = [d for d in out if d[0] != "unsupported"]
        out = keep + rnd.sample(rest, min(500, len(rest)))
    out += [random_hier(rnd, leaves) for _ in range(150 if tier == "quick" else 40000)]
    return out


def random_hier(rnd, leaves):
    """a random hierarchy (depth 2-4, shared sub-modules, nets of width 1-2 at every level, whole-signal connections only - what flatten supports)"""
    depth = rnd.randint(2, 4)
    names = ["Top"] + [f"H{k}" for k in range(1, depth)]
    mods, ports = {}, {}
    for li in reversed(range(depth)):
        name = names[li]
        sigs = []
        if li > 0:
            for k in range(rnd.randint(1, 3)):
                sigs.append(U.sig(f"p{k}", rnd.choice([1, 1, 2]), True))
        else:
            sigs.append(U.sig("io", 1, True))
            sigs.append(U.sig("bus", 2, True))
        for k in range(rnd.randint(1, 3)):
            sigs.append(U.sig(rnd.choice(["n", "m", "x"]) + str(k), rnd.choice([1, 1, 2])))
        ports[name] = [(x["n"], x["w"]) for x in sigs if x["port"]]

        def pick(w):
            c = [x["n"] for x in sigs if x["w"] == w]
            if not c:
                sigs.append(U.sig(f"w{w}_{len(sigs)}", w))
                c = [sigs[-1]["n"]]
            return Sig(rnd.choice(c))
        insts = []
        for k in range(rnd.randint(1, 3)):
            below = names[li + 1:]
            if below and rnd.random() < 0.7:
                ref = rnd.choice(below)
                insts.append(U.inst(rnd.choice(["x", "y", "u"]) + str(k), ref, [(pn, pick(pw)) for pn, pw in ports[ref]]))
            else:
                ref = rnd.choice(["L1", "L12", "Mos"])
                insts.append(U.inst(rnd.choice(["l", "d"]) + str(k), ref, [(p["n"], pick(p["w"])) for p in leaves[ref]], k="ext"))
        mods[name] = U.mod(sigs, insts, probes=False)
    D = U.design({n: mods[n] for n in reversed(names)})
    D["leaves"] = leaves
    return ("random_hier", D)


def run_case(args):
    tid, fam, D = args
    from ..hd import h
    ev = {"tid": tid, "fam": fam, "D": D, "raised": False, "P": conn.EMPTY_P, "paths": {}, "exc": "",
          "colon_names": any(":" in s["n"] for m in D["mods"].values() for s in m["sigs"]) or any(":" in i["n"] for m in D["mods"].values() for i in m["insts"])}
    try:
        top = build(h, D, "proc")
        from hdl21.flatten import flatten as _flatten
        flat = _flatten(top)
        pkg = h.to_proto(flat)
        P = proj_package(pkg, None)
        P["top"] = P["order"][-1]
        ev["P"] = P
        ev["paths"] = {i["n"]: i["n"].split(":") for i in P["mods"][P["top"]]["insts"]}
    except Exception as ex:
        ev["raised"] = True
        ev["exc"] = f"{type(ex).__name__}: {str(ex).strip().splitlines()[-1][:160] if str(ex).strip() else ''}"
    return ev


def run(tier, seed, replay_file=None):
    o = Outcome(PID, tier, seed)
    o.rule = ("hierarchies: 2 leaf-module kinds x 3x3 middle modules x shared / distinct sub-modules x optional top-level leaf (external / primitive) x "
              "optional adversarial top-level signal name; quick: seeded sample of 500; non-trivial = depth >= 3 (all); distinct by design.")
    o.trusted_base = ["harness/props/c16.py (splitting flat instance names at ':' into paths)", "harness/design.py", "TLC"]
    rnd = random.Random(seed)
    if replay_file:
        rp = json.loads(Path(replay_file).read_text())["case"]
        ds = [(rp["family"], rp["D"])]
    else:
        ds = designs(tier, rnd)
    evs = pool_map(run_case, [(i, f, D) for i, (f, D) in enumerate(ds)], chunksize=16)
    files = tlc.split_batches([[e] for e in evs], WORK / "c16", f"tr-{tier}", NPROC)
    res = tlc.validate_batches("trace/Trace_Flatten.tla", "trace/Trace_Flatten.cfg", files, jobs=NPROC, tag="c16val")
    verdicts = {}
    for r in res:
        o.transitions += r.generated
        o.states += r.distinct
        for tid, ok, clause in r.verdicts:
            verdicts[tid] = (ok, clause)
    if len(verdicts) != len(ds):
        raise tlc.TlcError(f"C16: {len(ds)} designs, {len(verdicts)} verdicts")
    o.traces = o.evaluations = len(ds)
    o.distinct_nontrivial = len(ds)
    for i, (fam, D) in enumerate(ds):
        ok, clause = verdicts[i]
        o.cover["fam_" + fam] = o.cover.get("fam_" + fam, 0) + 1
        o.cover["raised" if evs[i]["raised"] else "flattened"] = o.cover.get("raised" if evs[i]["raised"] else "flattened", 0) + 1
        top = D["mods"]["Top"]
        feats = ["fam_" + fam]
        if any(":" in s["n"] for s in top["sigs"]):
            feats.append("adversarial_colon_name")
            o.cover["adversarial_colon_name"] = o.cover.get("adversarial_colon_name", 0) + 1
        if any(x["n"] == "tl" for x in top["insts"]):
            feats.append("leaf_at_top")
        if any(x["of"]["ref"] == "L12" and x["n"] == "l" for x in D["mods"].get("Leafm", {"insts": []})["insts"]):
            feats.append("external_leaf_below_top")
        if not ok:
            o.violations.append(Violation(clause=clause.split(":")[0], case={"family": fam, "D": D}, features=feats, detail={"exc": evs[i]["exc"], "clause": clause}))
    o.required_cover = ["fam_hier", "fam_unsupported", "fam_random_hier", "flattened", "adversarial_colon_name"]
    for i in rnd.sample(range(len(ds)), 2):
        o.samples.append({"top_instances": ds[i][1]["mods"]["Top"]["insts"], "flat_instances": list(evs[i]["paths"]), "verdict": verdicts[i]})
    return o
