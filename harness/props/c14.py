"""C14 - Prefixed numbers are exact, totally ordered and hash-consistent.

Operands are (Decimal mantissa, prefix) pairs; every operation is executed on the real hdl21.Prefixed and its
result logged as exact decimal digits.  TLC (Trace_Prefixed over Prefixed/BigNum) computes the exact results.
"""
import itertools
import json
import math
import random
from decimal import Decimal
from pathlib import Path

from .. import tlc
from ..common import Outcome, Violation, WORK, NPROC, pool_map

PID = "C14"
PREFIX_EXPS = [-24, -21, -18, -15, -12, -9, -6, -3, -2, -1, 0, 1, 2, 3, 6, 9, 12, 15, 18, 21, 24]
MANTISSAS = ["0", "1", "-1", "5", "999", "1000", "-1000", "1.5", "-0.001", "1E+3", "0.999999999999999999999999",
             "123456789012345678901234", "-2.50"]


def dec_tuple(d: Decimal):
    """Raw Decimal -> [neg, digits LSB-first, exponent] (no canonicalisation: TLC does that)."""
    t = d.as_tuple()
    if not isinstance(t.exponent, int):
        raise ValueError("non-finite")
    return {"neg": bool(t.sign), "d": list(reversed(t.digits)), "e": t.exponent}


def P(x):
    r = dec_tuple(x.number)
    r["p"] = x.prefix.value
    return r


DUMMY = {"neg": False, "d": [], "e": 0, "p": 0}


def res(fn):
    try:
        v = fn()
        return {"raised": False, "v": P(v)}
    except Exception as ex:
        return {"raised": True, "v": DUMMY, "exc": type(ex).__name__}


def mk(h, m, pe):
    from hdl21.prefix import Prefix, Prefixed
    return Prefixed(number=Decimal(m), prefix=Prefix.from_exp(pe))


def pre_op(a, pre):
    """An operation that fails inside the library before the case proper (results must not depend on history)."""
    try:
        if pre == "eq_none":
            a == None  # noqa: E711
        elif pre == "lt_badstr":
            a < "abc"
        elif pre == "add_badstr":
            a + "x"
        elif pre == "scale_inf":
            (a * 0).scale()
    except Exception:
        pass


def run_pair(args):
    tid, (ma, pa, mb, pb, pre) = args
    from ..hd import h
    a, b = mk(h, ma, pa), mk(h, mb, pb)
    pre_op(a, pre)
    ev = {"tid": tid, "kind": "pair", "a": P(a), "b": P(b), "pre": pre}
    ev["add"] = res(lambda: a + b)
    ev["sub"] = res(lambda: a - b)
    ev["mul"] = res(lambda: a * b)
    cmp = {}
    for k, fn in (("lt", lambda: a < b), ("le", lambda: a <= b), ("eq", lambda: a == b), ("ne", lambda: a != b),
                  ("gt", lambda: a > b), ("ge", lambda: a >= b)):
        try:
            cmp[k] = "T" if fn() else "F"
        except Exception:
            cmp[k] = "X"
    ev["cmp"] = cmp
    try:
        ev["hasheq"] = hash(a) == hash(b)
    except Exception:
        ev["hasheq"] = False
    return ev


def conv_fields(a, ev):
    try:
        i = int(a)
        if not isinstance(i, int):
            raise TypeError("int() returned non-int")
        ev["int"] = {"raised": False, "v": dec_tuple(Decimal(i))}
    except Exception as ex:
        ev["int"] = {"raised": True, "v": {"neg": False, "d": [], "e": 0}, "exc": type(ex).__name__}
    try:
        f = float(a)
        if not isinstance(f, float) or math.isinf(f) or math.isnan(f):
            raise ValueError("non-finite float")
        ev["float"] = {"raised": False, "f": dec_tuple(Decimal(f)), "lo": dec_tuple(Decimal(math.nextafter(f, -math.inf))),
                       "hi": dec_tuple(Decimal(math.nextafter(f, math.inf)))}
    except Exception as ex:
        z = {"neg": False, "d": [], "e": 0}
        ev["float"] = {"raised": True, "f": z, "lo": z, "hi": z, "exc": type(ex).__name__}


def run_conv(args):
    tid, (ma, pa) = args
    from ..hd import h
    a = mk(h, ma, pa)
    ev = {"tid": tid, "kind": "conv", "a": P(a)}
    conv_fields(a, ev)
    return ev


def run_unary(args):
    tid, (ma, pa) = args
    from ..hd import h
    from hdl21.prefix import Prefix
    a = mk(h, ma, pa)
    ev = {"tid": tid, "kind": "unary", "a": P(a), "targets": PREFIX_EXPS}
    ev["neg"] = res(lambda: -a)
    ev["abs"] = res(lambda: abs(a))
    ev["auto"] = res(lambda: a.scale())
    ev["scales"] = [res(lambda q=q: a.scale(Prefix.from_exp(q))) for q in PREFIX_EXPS]
    conv_fields(a, ev)
    return ev


def rand_mantissa(rnd):
    nd = rnd.randint(1, 25)
    digits = "".join(rnd.choice("0123456789") for _ in range(nd)).lstrip("0") or "0"
    point = rnd.randint(0, len(digits))
    s = digits[:point] + ("." + digits[point:] if point < len(digits) else "")
    if s.startswith("."):
        s = "0" + s
    if rnd.random() < 0.3:
        s += "E" + str(rnd.randint(-6, 6))
    return ("-" if rnd.random() < 0.5 else "") + s


def gen(tier, seed):
    rnd = random.Random(seed)
    pairs, unary = [], []
    mp = list(itertools.product(MANTISSAS, MANTISSAS))
    per_pair = 12 if tier == "quick" else 60
    for pa in PREFIX_EXPS:
        for pb in PREFIX_EXPS:
            for ma, mb in rnd.sample(mp, per_pair):
                pairs.append((ma, pa, mb, pb, rnd.choice(PRES)))
            # values straddling the prefix boundary: equal values written with different prefixes
            if pa - pb in range(-6, 7):
                k = pa - pb
                pairs.append(("1E%+d" % (-k) if k > 0 else "1", pa, "1" if k > 0 else "1E%+d" % k, pb, "none"))
                pairs.append(("1", pa, "1E%+d" % k, pb, "none"))
            nr = 1 if tier == "quick" else 12
            for _ in range(nr):
                pairs.append((rand_mantissa(rnd), pa, rand_mantissa(rnd), pb, rnd.choice(PRES)))
    for pa in PREFIX_EXPS:
        # (for the unary operations also mantissas far below the comparison tolerance: un-normalised spellings such as (-4 * KILO) scaled to YOTTA)
        for ma in MANTISSAS + ["-4E-21", "4E-21", "-1E-25", "-0.000000000000000000000049", "-5E-21"]:
            unary.append((ma, pa))
        for _ in range(6 if tier == "quick" else 60):
            unary.append((rand_mantissa(rnd), pa))
    # int()/float() around the precision of a double: 14-18 significant digits, values next to 2**53, every prefix
    conv = []
    for _ in range(4000 if tier == "quick" else 40000):
        nd = rnd.choice([14, 15, 16, 16, 16, 17, 17, 18, 20])
        digits = str(rnd.randint(1, 9)) + "".join(rnd.choice("0123456789") for _ in range(nd - 1))
        if rnd.random() < 0.15:
            digits = str(2 ** 53 + rnd.randint(-3, 3))
        point = rnd.randint(1, len(digits))
        ms = digits[:point] + ("." + digits[point:] if point < len(digits) else "")
        conv.append((("-" if rnd.random() < 0.3 else "") + ms, rnd.choice(PREFIX_EXPS)))
    return pairs, unary, conv


PRES = ["none"] * 12 + ["eq_none", "lt_badstr", "add_badstr", "scale_inf"]


def feats(ev, clause):
    f = set()
    if ev["kind"] == "pair":
        a, b = ev["a"], ev["b"]
        f.add("same_prefix" if a["p"] == b["p"] else "diff_prefix")
        if ev.get("pre", "none") != "none":
            f.add("after_failed_operation")
        if max(len(a["d"]), len(b["d"])) > 12:
            f.add("long_mantissa")
        if abs(a["p"] - b["p"]) >= 12:
            f.add("far_prefixes")
    return sorted(f)


def run(tier, seed, replay_file=None):
    o = Outcome(PID, tier, seed)
    o.rule = ("pair cases: all 441 ordered prefix pairs x sampled mantissa pairs from a fixed alphabet (zero, +-1, prefix-boundary values, "
              "24-digit values, trailing zeros) + equal-value pairs written with different prefixes + seeded random 1-25 digit mantissas; "
              "unary cases: every prefix x every alphabet mantissa (+ random) with scale() to each of the 21 prefixes, int, float. "
              "Non-trivial: at least one operand non-zero; distinct by operands.")
    o.trusted_base = ["harness/props/c14.py (Decimal.as_tuple projection, math.nextafter, Decimal(float) exact expansion)", "TLC", "lib/BigNum.tla (self-checked by MC_BigNum against native integers)"]
    r = tlc.must_ok(tlc.run("mc/MC_BigNum.tla", "mc/MC_BigNum_q.cfg" if tier == "quick" else "mc/MC_BigNum.cfg", workers=16, tag="c14mc"), "MC_BigNum")
    o.add_mc("MC_BigNum", r, "N=40" if tier == "quick" else "N=120")
    if replay_file:
        c = json.loads(Path(replay_file).read_text())["case"]
        pairs = [tuple(c["args"])] if c["kind"] == "pair" else []
        unary = [tuple(c["args"])] if c["kind"] == "unary" else []
        conv = [tuple(c["args"])] if c["kind"] == "conv" else []
    else:
        pairs, unary, conv = gen(tier, seed)
    evs = pool_map(run_pair, list(enumerate(pairs)), chunksize=256)
    evs += pool_map(run_unary, [(len(pairs) + i, u) for i, u in enumerate(unary)], chunksize=64)
    evs += pool_map(run_conv, [(len(pairs) + len(unary) + i, u) for i, u in enumerate(conv)], chunksize=256)
    cases = ([{"kind": "pair", "args": list(p)} for p in pairs] + [{"kind": "unary", "args": list(u)} for u in unary]
             + [{"kind": "conv", "args": list(u)} for u in conv])
    files = tlc.split_batches([[e] for e in evs], WORK / "c14", f"tr-{tier}", NPROC)
    out = tlc.validate_batches("trace/Trace_Prefixed.tla", "trace/Trace_Prefixed.cfg", files, jobs=NPROC, tag="c14val")
    verdicts = {}
    for r in out:
        o.transitions += r.generated
        for tid, ok, clause in r.verdicts:
            verdicts[tid] = (ok, clause)
    if len(verdicts) != len(evs):
        raise tlc.TlcError(f"C14: {len(evs)} cases, {len(verdicts)} verdicts")
    o.traces = o.evaluations = len(evs)
    o.distinct_nontrivial = len({json.dumps(c) for c in cases if any(ch in "123456789" for ch in "".join(str(x) for x in c["args"][::2]))})
    o.cover = {"pair": len(pairs), "unary": len(unary), "conv": len(conv), "prefix_pairs": len({(p[1], p[3]) for p in pairs}),
               "after_failed_operation": sum(1 for p in pairs if p[4] != "none")}
    o.required_cover = ["pair", "unary", "conv", "after_failed_operation"]
    o.exhaustive = False
    o.extra["prefix_pairs_exhaustive"] = o.cover["prefix_pairs"] == 441
    rnd = random.Random(seed)
    for i in rnd.sample(range(len(evs)), 3):
        o.samples.append({"case": cases[i], "observed": {k: v for k, v in evs[i].items() if k in ("add", "cmp", "hasheq", "int", "float", "auto")}, "verdict": verdicts[i]})
    for i, ev in enumerate(evs):
        ok, clause = verdicts[i]
        if not ok:
            o.violations.append(Violation(clause=clause, case=cases[i], features=feats(ev, clause), detail=ev if len(o.violations) < 30 else None))
    return o
