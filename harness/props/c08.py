"""C08 - a failed elaboration or generator call does not poison later ones.

MC  : ElabSched with FailAt enabled at every (pass, module) (NoStalePending, HalfRewrittenNeverMarked, ...), GenCache with BodyRaise.
RUN : for every DAG shape x module x failure source - an exception injected through a custom pass list before every pass position or
      inside every pass (after its rewrite), a real design fault caught by a checking pass or by a rewriting pass part-way, a generator
      body raising - the failing call is made in a fresh process, followed by every continuation: an unrelated design, tops of the same
      DAG without and with the offending module, retry with the same and with the default elaborator, repair and retry.  Every call is
      paired with what a FRESH process gives for the same design as it is then.
VAL : Trace_Fail decides the call-level contract; Trace_Elab validates the hook events (incl. fail / refail) against ElabSched.
"""
import copy
import json
import os
import pickle
import random
from pathlib import Path

from .. import tlc, passlist, universe as U
from ..common import Outcome, Violation, WORK, NPROC
from ..design import Sig, Slc, I, Builder, Bund, Anon
from .. import elabtrace as ET

PID = "C08"
FAULTS = ["width", "foreign", "arraywidth"]


def plant(D, m, fault, repaired=False, first_top=None):
    D = copy.deepcopy(D)
    md = D["mods"][m]
    if fault == "exportparam":
        # a failure at EXPORT: the design elaborates, but one instance's parameter value (a tuple) has no representation in the package.  Two instances
        # share the call object, as designers write it
        pv = [["nstages", 3], ["t", 7 if repaired else [1, 2]], ["after", 5]]
        for nm in ("bad", "bad2"):
            i = U.inst(nm, "L1", [("a", Sig("p"))], k="ext")
            i["pv"] = pv
            md["insts"].append(i)
        return D
    if fault == "cycle":
        # a circular hierarchy: module m instantiates the top it is (transitively) instantiated by - the scheduler's `Circular` decision
        if not repaired:
            tgt = D["mods"][first_top]
            second = ("q", Sig("w2")) if any(s["n"] == "q" for s in tgt["sigs"]) else ("bp", Bund("ib") if any(b["n"] == "ib" for b in md["bundles"]) else
                                                                                          Anon(x=Sig("n"), y=Sig("w2")))
            md["insts"].append(U.inst("zback", first_top, [("p", Sig("p")), second]))
        return D
    if fault == "width":
        t = Sig("p") if repaired else Sig("w2")
        md["insts"].append(U.inst("bad", "L1", [("a", t)], k="ext"))
    elif fault == "foreign":
        t = Sig("p") if repaired else {"k": "fsig", "n": "stranger", "w": 1, "owner": "Elsewhere"}
        md["insts"].append(U.inst("bad", "L1", [("a", t)], k="ext"))
    elif fault == "arraywidth":
        md["sigs"].append(U.sig("w3", 3))
        t = Sig("w2") if repaired else Sig("w3")
        md["insts"].append(U.inst("bad", "L1", [("a", t)], kind="array", arr=2, k="ext"))
    return D


def closure(shape, tops):
    cl, stack = set(), list(tops)
    while stack:
        x = stack.pop()
        if x not in cl:
            cl.add(x)
            stack += ET.SHAPES[shape][x]
    return cl


def in_fresh_process(fn):
    """run fn() in a forked child; returns its (picklable) result"""
    r, w = os.pipe()
    pid = os.fork()
    if pid == 0:
        try:
            os.close(r)
            res = fn()
            os.write(w, pickle.dumps(res))
        finally:
            os._exit(0)
    os.close(w)
    data = b""
    while True:
        chunk = os.read(r, 65536)
        if not chunk:
            break
        data += chunk
    os.close(r)
    os.waitpid(pid, 0)
    return pickle.loads(data) if data else (True, "", "fresh process died")


def fresh_result(D, tops):
    def fn():
        from ..hd import h
        bld = Builder(h, D, "proc")
        for name in D["mods"]:
            bld.module(name)
        return ET.do_call(h, "to_proto", [bld.mods[t] for t in tops])
    return in_fresh_process(fn)


class RuleError(Exception):
    """a user pass's own exception type: two required constructor arguments, message composed from them (it cannot be rebuilt from e.args)"""
    def __init__(self, module, rule):
        super().__init__(f"module {module} breaks rule {rule}")
        self.module, self.rule = module, rule


def make_inject(h, base_cls, target, msg):
    state = {"armed": True}

    def boom():
        # half of the injected failures are of the user's own exception type
        if sum(map(ord, msg)) % 2:
            raise RuleError(target, msg)
        raise ValueError(msg)
    if base_cls is None:
        class Inject(h.elab.ElabPass):
            def elaborate_module(self, module):
                if state["armed"] and module.name == target:
                    state["armed"] = False
                    boom()
                return module
        return Inject
    cls = type("Failing" + base_cls.__name__, (base_cls,), {})

    def elaborate_module(self, module):
        out = base_cls.elaborate_module(self, module)
        if state["armed"] and module.name == target:
            state["armed"] = False
            boom()
        return out
    cls.elaborate_module = elaborate_module
    return cls


def replay(args):
    tid, case = args
    from ..hd import h
    from hdl21 import _verif
    shape, m, src = case["shape"], case["module"], case["source"]
    first_top = case["first_top"]
    D0 = ET.shape_design(shape)
    fault = src["fault"] if src["type"] == "fault" else None
    D = plant(D0, m, fault, first_top=first_top) if fault else D0
    Drep = plant(D0, m, fault, repaired=True, first_top=first_top) if fault else D0
    bld = Builder(h, D, "proc")
    for name in D["mods"]:
        bld.module(name)
    mods = bld.mods
    default = h.elab.Elaborator.default().passes
    passes = list(default)
    if src["type"] == "inject_before":
        passes.insert(src["pos"] - 1, make_inject(h, None, m, f"injected before pass {src['pos']} at {m}"))
    elif src["type"] == "inject_in":
        passes[src["pos"] - 1] = make_inject(h, default[src["pos"] - 1], m, f"injected in pass {src['pos']} at {m}")
    custom = src["type"].startswith("inject")
    if custom:
        h.elab.set_elaborator(h.elab.Elaborator(passes=passes))

    events, calls = [], []
    seq = [0]
    state = {"passes": passes}

    def emit(ev):
        seq[0] += 1
        ev.update({"tid": tid, "seq": seq[0]})
        for k, d in (("pos", 0), ("cache", ""), ("mod", ""), ("ndone", 0), ("pending", []), ("tops", []), ("children", {}), ("np", 0),
                     ("kindof", []), ("raised", False), ("strict", False), ("caches", []), ("elab", False)):
            ev.setdefault(k, d)
        events.append(ev)

    def call(label, tops, modset, Dnow, tainted, shape_children):
        ps = state["passes"]
        sink = ET.Sink([p.__name__ for p in ps])
        _verif.set_sink(sink)
        emit({"ev": "call_begin", "tops": tops, "children": shape_children, "np": len(ps), "kindof": [passlist.kind_of(p) for p in ps], "strict": False,
              "caches": [passlist.cache_owner(p) for p in ps]})
        raised, dg, sig = ET.do_call(h, "to_proto", [modset[t] for t in tops])
        _verif.set_sink(None)
        for e in sink.events:
            emit(dict(e))
        emit({"ev": "call_end", "raised": raised})
        fr, fdg, fsig = fresh_result(Dnow, [t[1:] if label == "unrelated" else t for t in tops])
        calls.append({"tid": tid, "seq": len(calls) + 1, "label": label, "tainted": tainted, "raised": raised, "sig": sig, "digest": dg,
                      "fresh_raised": fr, "fresh_sig": fsig, "fresh_digest": fdg, "tops": tops, "full": ET.LAST["full"] if raised else ""})

    ch = ET.SHAPES[shape]
    if fault == "cycle":
        ch = {k: list(v) + ([first_top] if k == m else []) for k, v in ch.items()}
    # an unrelated design, built from scratch in this process (it holds a generic transistor, which a PDK compilation would replace)
    other = "chain" if shape != "chain" else "diamond"
    D2 = ET.shape_design(other)
    for k in list(D2["mods"]):
        D2["mods"][k]["name"] = "X" + k
    D2["leaves"] = dict(D2["leaves"], Mos=[{"n": n, "w": 1} for n in ("d", "g", "s", "b")])
    D2["mods"]["A"]["insts"].append(U.inst("mq", "Mos", [("d", Sig("p")), ("g", Sig("n")), ("s", Sig("n")), ("b", Sig("n"))], k="ext"))
    b2 = Builder(h, D2, "proc")
    for name in D2["mods"]:
        b2.module(name)
    xmods = {"X" + k: v for k, v in b2.mods.items()}
    xch = {"X" + k: ["X" + c for c in v] for k, v in ET.SHAPES[other].items()}
    if src.get("via") == "compile":
        # the failure is first met inside a PDK compilation of a LIST: [the unrelated design, the faulty one]
        from hdl21.pdk import sample_pdk
        ps = state["passes"]
        sink = ET.Sink([p.__name__ for p in ps])
        _verif.set_sink(sink)
        emit({"ev": "call_begin", "tops": ["XA", first_top], "children": dict(ch, **xch), "np": len(ps), "kindof": [passlist.kind_of(p) for p in ps], "strict": False,
              "caches": [passlist.cache_owner(p) for p in ps]})
        try:
            sample_pdk.compile([xmods["XA"], mods[first_top]])
            craised = False
        except Exception:
            craised = True
        _verif.set_sink(None)
        for e in sink.events:
            emit(dict(e))
        emit({"ev": "call_end", "raised": craised})
    call("first", [first_top], mods, D, True, ch)
    call("unrelated", ["XA"], xmods, D2, False, xch)
    # in every second history the designer now edits a module the failed call went through but did not finish (it does not contain the offending
    # module): a faulty instance is added on the real object.  Whatever is exported from here on must be what a fresh process gives for the
    # EDITED design - for the edited module itself: a refusal
    editX = None
    edit_targets = [t for t in sorted(ch) if t != first_top and m not in closure(shape, [t]) and t in closure(shape, [first_top])
                    and mods[t]._elaborated is None and mods[t].get("w2") is not None]
    if tid % 2 and edit_targets and fault != "cycle":
        X = edit_targets[(tid // 2) % len(edit_targets)]
        Dx = plant(D, X, "width", first_top=first_top)
        Dx["mods"][X]["insts"][-1]["n"] = "edited_in"
        leaf = bld.leaf("L1")
        mods[X].add(leaf(a=mods[X].get("w2")), name="edited_in")        # a 2-bit signal on a 1-bit port
        editX, D = X, Dx
        call("edited_after_failure", [X], mods, D, False, ch)
    # other tops of the same DAG
    for t in sorted(ch):
        if t == first_top:
            continue
        tainted = m in closure(shape, [t]) or (editX is not None and editX in closure(shape, [t]))
        call("sharing_with" if tainted else "sharing_without", [t], mods, D, tainted, ch)
    call("retry", [first_top], mods, D, True, ch)
    if custom:
        h.elab.reset_elaborator()
        state["passes"] = list(default)
        call("retry_default_elaborator", [first_top], mods, D, True, ch)
    if fault and fault not in ("cycle", "exportparam") and editX is None:
        # repair the planted fault on the real objects, then retry
        try:
            bad = mods[m].get("bad")
            if bad is not None:
                good = mods[m].get("p") if fault != "arraywidth" else mods[m].get("w2")
                bad.connect("a", good)
        except Exception:
            pass
        call("repair_retry", [first_top], mods, Drep, True, ch)
    return events, calls


def gen_case(args):
    """a generator whose body raises once: calling it again must simply run it again"""
    tid, variant = args
    from ..hd import h
    state = {"n": 0}

    @h.paramclass
    class P:
        a = h.Param(dtype=int, desc="a", default=1)

    @h.generator
    def Inner(p: P) -> h.Module:
        state["n"] += 1
        if state["n"] == 1 and variant in ("inner", "nested"):
            raise ValueError("inner body failed")
        m = h.Module()
        m.s = h.Signal()
        return m

    @h.generator
    def Outer(p: P) -> h.Module:
        m = h.Module()
        m.i = Inner(a=p.a)()
        if variant == "outer" and state.setdefault("o", 0) == 0:
            state["o"] = 1
            raise ValueError("outer body failed")
        return m
    calls = []

    def one(label, fn, tainted=True):
        try:
            mod = fn()
            pkg = h.to_proto(mod)
            calls.append({"tid": tid, "seq": len(calls) + 1, "label": label, "tainted": tainted, "raised": False, "sig": "", "digest": str(sorted(m.name.split(".")[-1] for m in pkg.modules)),
                          "fresh_raised": False, "fresh_sig": "", "fresh_digest": "", "tops": [], "full": ""})
        except Exception as ex:
            calls.append({"tid": tid, "seq": len(calls) + 1, "label": label, "tainted": tainted, "raised": True, "sig": f"{type(ex).__name__}: {str(ex)[:100]}", "digest": "",
                          "fresh_raised": False, "fresh_sig": "", "fresh_digest": "", "tops": [], "full": ""})
    target = (lambda: Inner(a=1)) if variant == "inner" else (lambda: Outer(a=1))
    one("first", target)
    one("unrelated", lambda: Inner(a=2) if variant != "inner" else Outer(a=2), tainted=False)
    one("retry", target)
    one("retry", target)
    # what a fresh process gives: the second execution of the body succeeds, so every call after the first returns; expected module sets
    exp = {"inner": {"unrelated": "['Outer(a=2)', 'Inner(a=2)']", "retry": "['Inner(a=1)']"},
           "outer": {"unrelated": "['Inner(a=2)']", "retry": "['Outer(a=1)', 'Inner(a=1)']"},
           "nested": {"unrelated": "['Inner(a=2)']", "retry": "['Outer(a=1)', 'Inner(a=1)']"}}
    for c in calls[1:]:
        c["fresh_digest"] = c["digest"] if not c["raised"] else ""     # the package content is C09's business; here: must return
    return [], calls


def gen_caught_case(args):
    """an enclosing generator catches the failure of an inner generator call and falls back to another cell; afterwards the inner
    generator, called directly, must report its own error again (not a circular dependency) and, once its cause is repaired, return"""
    tid, _ = args
    from ..hd import h
    state = {"broken": True}

    @h.paramclass
    class P:
        a = h.Param(dtype=int, desc="a", default=1)

    @h.generator
    def Fancy(p: P) -> h.Module:
        if state["broken"]:
            raise ValueError("fancy cell unavailable")
        m = h.Module()
        m.s = h.Signal()
        return m

    @h.generator
    def Plain(p: P) -> h.Module:
        m = h.Module()
        m.t = h.Signal()
        return m

    @h.generator
    def Wrapper(p: P) -> h.Module:
        try:
            cell = Fancy(p)
        except ValueError:
            cell = Plain(p)
        m = h.Module()
        m.i = cell()
        return m
    calls = []

    def one(label, fn, fresh_raises, tainted=True):
        ev = {"tid": tid, "seq": len(calls) + 1, "label": label, "tainted": tainted, "raised": False, "sig": "", "digest": "", "tops": [],
              "fresh_raised": fresh_raises, "fresh_sig": "ValueError: fancy cell unavailable" if fresh_raises else "", "fresh_digest": "", "full": ""}
        try:
            mod = fn()
            pkg = h.to_proto(mod)
            ev["digest"] = ev["fresh_digest"] = str(len(pkg.modules))
        except Exception as ex:
            ev["raised"] = True
            ev["sig"] = f"{type(ex).__name__}: {str(ex)[:100]}"
        calls.append(ev)
    one("first", lambda: Fancy(a=2), True)
    one("unrelated", lambda: Wrapper(a=1), False, tainted=False)       # catches Fancy(a=1)'s failure inside, falls back
    one("retry", lambda: Fancy(a=1), True)                              # the call whose failure was caught: its own error again
    one("retry", lambda: Fancy(a=2), True)
    state["broken"] = False
    one("repair_retry", lambda: Fancy(a=1), False)
    one("repair_retry", lambda: Fancy(a=2), False)
    return [], calls


def gen_uncached_case(args):
    """a generator made with enable_cache=False raises while a cached generator that called it is in progress (and once on its own first);
    repeating the cached call must report that same error - not a circular dependency -, and return once the cause is repaired"""
    tid, _ = args
    from ..hd import h
    state = {"broken": True}

    @h.paramclass
    class P:
        a = h.Param(dtype=int, desc="a", default=1)

    @h.generator(enable_cache=False)
    def Helper(p: P) -> h.Module:
        if state["broken"]:
            raise KeyError("helper setting missing")
        m = h.Module()
        m.s = h.Signal()
        return m

    @h.generator
    def Plain(p: P) -> h.Module:
        m = h.Module()
        m.t = h.Signal()
        return m

    @h.generator
    def Block(p: P) -> h.Module:
        m = h.Module()
        m.i = Helper(p)()
        return m
    calls = []

    def one(label, fn, fresh_raises, tainted=True):
        ev = {"tid": tid, "seq": len(calls) + 1, "label": label, "tainted": tainted, "raised": False, "sig": "", "digest": "", "tops": [],
              "fresh_raised": fresh_raises, "fresh_sig": "KeyError: 'helper setting missing'" if fresh_raises else "", "fresh_digest": "", "full": ""}
        try:
            pkg = h.to_proto(fn())
            ev["digest"] = ev["fresh_digest"] = str(len(pkg.modules))
        except Exception as ex:
            ev["raised"] = True
            ev["sig"] = f"{type(ex).__name__}: {str(ex)[:100]}"
        calls.append(ev)
    one("first", lambda: Helper(a=3), True)                            # an un-cached failure at top level
    one("retry", lambda: Block(a=1), True)                             # ... then a cached generator failing through the helper
    one("unrelated", lambda: Plain(a=1), False, tainted=False)
    one("retry", lambda: Block(a=1), True)
    one("retry", lambda: Block(a=2), True)
    state["broken"] = False
    one("repair_retry", lambda: Block(a=1), False)
    one("repair_retry", lambda: Block(a=2), False)
    one("repair_retry", lambda: Helper(a=3), False)
    return [], calls


def run(tier, seed, replay_file=None):
    o = Outcome(PID, tier, seed, level="fault_enumeration")
    o.rule = ("fault sequences: 4 DAG shapes x every module x failure source {exception injected before pass position i, inside pass i after its rewrite "
              "(every i), real design fault (width / foreign signal / array width), generator body raising} x all continuations in one history; "
              "quick samples the injection positions with the seed; non-trivial = the first call failed; distinct by case.")
    o.trusted_base = ["harness/props/c08.py (driver, fresh-process references via fork, error signature = type + last message line)", "harness/elabtrace.py", "TLC"]
    rnd = random.Random(seed)
    passes = passlist.write_tla()
    NP = len(passes)
    for cfg, spec in (("mc/MC_ElabSched_fail.cfg", "mc/MC_ElabSched.tla"), ("mc/MC_ElabSched_cycle.cfg", "mc/MC_ElabSched.tla"),
                      ("mc/MC_GenCache_raise.cfg", "mc/MC_GenCache.tla")):
        r = tlc.run(spec, cfg, workers=8, tag="c08mc")
        if r.rc != 0:
            if r.invariant_violated:
                o.violations.append(Violation(clause="model:" + r.invariant_violated, case={"cfg": cfg}, features=["model_level"], detail=r.out[-2500:]))
            else:
                raise tlc.TlcError(f"{cfg}: " + r.out[-1500:])
        else:
            o.add_mc(spec, r, cfg + " (failures enabled at every pass position and module)")
    cases = []
    if replay_file:
        cases = [json.loads(Path(replay_file).read_text())["case"]]
    else:
        for shape, ch in ET.SHAPES.items():
            tops = {"chain": "A", "diamond": "A", "shared": "A", "twice": "D"}
            ft = tops[shape]
            for m in sorted(closure(shape, [ft])):
                srcs = [{"type": "fault", "fault": f} for f in FAULTS + ["cycle", "exportparam"]]
                # ... and a real design fault met inside pdk.compile([an unrelated design, the faulty one]): the failed compile must leave the other alone
                srcs += [{"type": "fault", "fault": f, "via": "compile"} for f in ("width", "arraywidth")]
                inj = [{"type": "inject_before", "pos": i} for i in range(1, NP + 2)] + [{"type": "inject_in", "pos": i} for i in range(1, NP + 1)]
                if tier == "quick":
                    inj = rnd.sample(inj, 6)
                for s in srcs + inj:
                    cases.append({"shape": shape, "module": m, "source": s, "first_top": ft})
    import multiprocessing as mp
    from ..hd import h  # noqa: F401
    ctx = mp.get_context("fork")
    with ctx.Pool(NPROC, maxtasksperchild=1) as pool:
        out = pool.map(replay, list(enumerate(cases)), chunksize=1)
        base = len(cases)
        gout = pool.map(gen_case, [(base + k, v) for k, v in enumerate(["inner", "outer", "nested"])], chunksize=1)
        gout += pool.map(gen_caught_case, [(base + 3, "caught")], chunksize=1)
        gout += pool.map(gen_uncached_case, [(base + 4, "uncached")], chunksize=1)
    gcases = [{"generator": v} for v in ["inner", "outer", "nested", "caught", "uncached"]]
    traces = [t for t, _ in out]
    calls = [c for _, c in out] + [c for _, c in gout]
    allcases = cases + gcases
    files = tlc.split_batches([t for t in traces if t], WORK / "c08", f"ev-{tier}", NPROC)
    res = tlc.validate_batches("trace/Trace_Elab.tla", "trace/Trace_Elab.cfg", files, jobs=NPROC, tag="c08ev")
    v1 = {}
    for r in res:
        o.transitions += r.generated
        o.states += r.distinct
        for tid, ok, clause in r.verdicts:
            v1[tid] = (ok, clause)
    files = tlc.split_batches(calls, WORK / "c08", f"calls-{tier}", NPROC)
    res = tlc.validate_batches("trace/Trace_Fail.tla", "trace/Trace_Fail.cfg", files, jobs=NPROC, tag="c08calls")
    v2 = {}
    for r in res:
        o.transitions += r.generated
        for tid, ok, clause in r.verdicts:
            v2[tid] = (ok, clause)
    if len(v1) != len(cases) or len(v2) != len(allcases):
        raise tlc.TlcError(f"C08: {len(cases)}+4 cases, {len(v1)} event verdicts, {len(v2)} call verdicts")
    o.traces = len(allcases)
    o.evaluations = sum(len(c) for c in calls)
    nt = 0
    for i, case in enumerate(allcases):
        cs = calls[i]
        if cs and cs[0]["raised"]:
            nt += 1
        for c in cs:
            k = c["label"] + ("_raised" if c["raised"] else "_returned")
            o.cover[k] = o.cover.get(k, 0) + 1
        if case.get("source", {}).get("via"):
            o.cover["via_" + case["source"]["via"]] = o.cover.get("via_" + case["source"]["via"], 0) + 1
        st = case.get("source", {}).get("type", "generator")
        o.cover["source_" + st] = o.cover.get("source_" + st, 0) + 1
        feats = ["source_" + st] + (["fault_" + case["source"]["fault"]] if st == "fault" else [])
        if st == "fault":
            o.cover[feats[1]] = o.cover.get(feats[1], 0) + 1
        for e in (traces[i] if i < len(traces) else []):
            if e["ev"] in ("circular", "refail", "fail"):
                o.cover["event_" + e["ev"]] = o.cover.get("event_" + e["ev"], 0) + 1
        if i in v1 and not v1[i][0]:
            o.violations.append(Violation(clause="sched:" + v1[i][1], case=case, features=feats, detail=traces[i][-40:] if len(o.violations) < 10 else None))
        if not v2[i][0]:
            o.violations.append(Violation(clause="contract:" + v2[i][1], case=case, features=feats, detail=cs))
    o.distinct_nontrivial = nt
    o.required_cover = ["first_raised", "unrelated_returned", "sharing_without_returned", "retry_raised", "source_fault", "source_inject_before", "source_inject_in",
                        "source_generator", "repair_retry_raised", "fault_cycle", "fault_exportparam", "via_compile", "edited_after_failure_raised", "event_circular", "event_refail", "event_fail"]
    for i in rnd.sample(range(len(allcases)), 2):
        o.samples.append({"case": allcases[i], "calls": [{k: c[k] for k in ("label", "raised", "sig", "fresh_raised", "tainted")} for c in calls[i]], "verdict": v2[i]})
    return o
