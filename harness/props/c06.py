"""C06 - every exported package is closed and self-consistent.

Corpus: packages of the valid designs of the C01 universes, of the repository's examples (every package their main() functions
export, captured by the export hook), and of the built-in generators over parameter ranges.  Each package is projected
(protobuf -> JSON) and TLC (Trace_Pkg, Package!PkgFaults) decides well-formedness; the driver also records whether from_proto and
the vlsirtools spice / spectre netlisters accepted it.
"""
import importlib
import io
import json
import os
import random
from pathlib import Path

from .. import tlc, universe
from ..common import Outcome, Violation, WORK, NPROC, pool_map
from ..design import build, proj_package

PID = "C06"


def check_pkg(h, pkg):
    import vlsirtools
    out = {"import_ok": True, "spice_ok": True, "spectre_ok": True, "why": ""}
    try:
        h.from_proto(pkg)
    except Exception as ex:
        out["import_ok"] = False
        out["why"] += f"from_proto: {type(ex).__name__}: {str(ex)[:150]} "
    for fmt, key in (("spice", "spice_ok"), ("spectre", "spectre_ok")):
        try:
            vlsirtools.netlist(pkg=pkg, dest=io.StringIO(), fmt=fmt)
        except Exception as ex:
            out[key] = False
            out["why"] += f"{fmt}: {type(ex).__name__}: {str(ex)[:150]} "
    return out


def from_design(args):
    tid, fam, D = args
    from ..hd import h
    try:
        pkg = h.to_proto(build(h, D, "proc"))
    except Exception:
        return None
    ev = {"tid": tid, "src": fam, "P": proj_package(pkg, D["top"])}
    ev.update(check_pkg(h, pkg))
    return ev


def from_retry(args):
    """A faulty design: to_proto is attempted repeatedly on the same objects (and on a parent re-using its cells); every package
    that any attempt returns joins the corpus."""
    tid, fam, D = args
    from ..hd import h
    out = []
    try:
        top = build(h, D, "proc")
    except Exception:
        return out
    for attempt in range(3):
        try:
            pkg = h.to_proto(top)
        except Exception:
            continue
        ev = {"tid": tid, "src": f"retry{attempt}:" + fam, "P": proj_package(pkg, D["top"])}
        ev.update(check_pkg(h, pkg))
        out.append(ev)
        break
    return out


def from_rebinding(args):
    """Modules built by re-using an attribute name for an object of another kind, then exported."""
    k1, k2 = args
    from ..hd import h
    from .c18 import _make, _mk_env
    h2, leaf, bund = _mk_env()
    m = h.Module(name="Rebind")
    m.keep = h.Signal()
    try:
        setattr(m, "a", _make(h, leaf, bund, k1, None))
        setattr(m, "a", _make(h, leaf, bund, k2, None))
        m.add(_make(h, leaf, bund, k1, None), name="b")
        m.add(_make(h, leaf, bund, k2, "b"))
        pkg = h.to_proto(m)
    except Exception:
        return []
    ev = {"src": f"rebinding:{k1}->{k2}", "P": proj_package(pkg, None)}
    ev.update(check_pkg(h, pkg))
    return [ev]


def from_example(name):
    """Run one example's main() with the export hook installed; return one event per exported package."""
    from ..hd import h
    from hdl21 import _verif
    import sys
    got = []
    _verif.set_sink(lambda ev, f: got.append(f["pkg"]) if ev == "export" else None)
    wd = WORK / "c06ex" / name
    wd.mkdir(parents=True, exist_ok=True)
    cwd = os.getcwd()
    os.chdir(wd)
    err = ""
    try:
        from ..hd import REPO
        if REPO not in sys.path:
            sys.path.insert(0, REPO)
        import contextlib
        with contextlib.redirect_stdout(io.StringIO()):
            mod = importlib.import_module(f"examples.{name}")
            mod.main()
    except Exception as ex:
        err = f"{type(ex).__name__}: {str(ex)[:200]}"
    finally:
        os.chdir(cwd)
        _verif.set_sink(None)
    out = []
    for pkg in got:
        ev = {"src": "example:" + name, "P": proj_package(pkg, None)}
        ev.update(check_pkg(h, pkg))
        out.append(ev)
    return out, err


def from_builtin(args):
    kind, n = args
    from ..hd import h
    evs = []
    try:
        if kind == "MosStack":
            m = h.generators.MosStack(nser=n)
        elif kind == "SeriesRes":
            m = h.generators.Series(unit=h.primitives.PhysicalResistor(), nser=n, conns=("p", "n"))
        elif kind == "SeriesMod":
            u = h.Module(name="U3")
            u.a, u.b, u.c = h.Ports(3)
            u.r = h.primitives.IdealResistor(r=1)(p=u.a, n=u.b)
            u.cc = h.primitives.IdealCapacitor(c=1)(p=u.b, n=u.c)
            m = h.generators.Series(unit=u, nser=n, conns=("a", "b"))
        elif kind == "CmDmGen":
            m = h.generators.CmDmGen()
        elif kind == "Balun":
            m = h.generators.Balun()
        elif kind == "Wrapper":
            m = h.generators.Wrapper(h.primitives.Mos())
        else:
            raise ValueError(kind)
        pkg = h.to_proto(m)
    except Exception as ex:
        return [{"src": f"builtin:{kind}({n})", "failed": f"{type(ex).__name__}: {str(ex)[:150]}"}]
    ev = {"src": f"builtin:{kind}({n})", "P": proj_package(pkg, None)}
    ev.update(check_pkg(h, pkg))
    return [ev]


def from_twodomains(k):
    """external modules of one name declared in two domains, side by side in one design"""
    from ..hd import h
    import vlsirtools
    a = h.ExternalModule(name="nfet", port_list=[h.Port(name="d"), h.Port(name="g")], desc="model", domain="fab.models",
                         spicetype=vlsirtools.SpiceType.SUBCKT if k % 2 else vlsirtools.SpiceType.MOS if hasattr(vlsirtools.SpiceType, "MOS") else vlsirtools.SpiceType.SUBCKT)
    b = h.ExternalModule(name="nfet", port_list=[h.Port(name="d"), h.Port(name="g"), h.Port(name="x")] if k < 2 else [h.Port(name="d"), h.Port(name="g")],
                         desc="cell", domain="fab.cells")
    m = h.Module(name=f"TwoDomains{k}")
    m.s, m.t = h.Signals(2)
    m.i0 = a()(d=m.s, g=m.t)
    m.i1 = b()(d=m.t, g=m.s, x=m.s) if k < 2 else b()(d=m.t, g=m.s)
    try:
        pkg = h.to_proto(m)
    except Exception as ex:
        return []          # refusing such a design is fine
    ev = {"src": "twodomains", "P": proj_package(pkg, None)}
    ev.update(check_pkg(h, pkg))
    return [ev]


GENNAME_PAIRS = [("float", 1.5, 2.5), ("float", 1e+22, 1e-22), ("float", 0.5, 0.25), ("str", "a-b", "a_b"), ("str", "v1.2", "v3.2"), ("str", "x y", "x_y"),
                 ("int", 1, -1), ("int", 12, 21), ("str", "rev2", "rev3"), ("two", 1.5, 2.5)]


def from_gennames(k):
    """one design holding two generated modules whose parameter values differ only in characters netlist formats do not have (a dot, a sign, a dash):
    the package names them apart, and the netlisters must accept it"""
    from ..hd import h
    kind, v1, v2 = GENNAME_PAIRS[k]
    T = {"float": float, "str": str, "int": int, "two": float}[kind]
    P = h.paramclass(type("GP", (), {"x": h.Param(dtype=T, desc="x")}))

    def mk(fname, width):
        def body(params):
            m = h.Module()
            m.a = h.Port(width=width)
            return m
        body.__name__ = fname
        body.__annotations__ = {"params": P, "return": h.Module}
        return h.generator(body)
    GA = mk("Cell", 1)
    GB = mk("Other", 1) if kind == "two" else GA
    m = h.Module(name=f"GenNames{k}")
    m.s = h.Signal()
    m.i0 = GA(x=v1)(a=m.s)
    m.i1 = GB(x=v2)(a=m.s)
    try:
        pkg = h.to_proto(m)
    except Exception:
        return []
    ev = {"src": f"gennames:{kind}:{v1!r}:{v2!r}", "P": proj_package(pkg, None)}
    ev.update(check_pkg(h, pkg))
    return [ev]


def from_multitop(k):
    """several tops given as a list, one of them also instantiated (deep) below another; and exports under an explicit domain of designs that
    hold an ExternalModule declared without a domain"""
    from ..hd import h
    amp = h.ExternalModule(name="amp", port_list=[h.Port(name="i"), h.Port(name="o")], desc="no domain given")
    inv = h.Module(name=f"Inv{k}")
    inv.i, inv.o = h.Port(), h.Port()
    inv.a = amp()(i=inv.i, o=inv.o)
    core = h.Module(name=f"Core{k}")
    core.i, core.o, core.n = h.Port(), h.Port(), h.Signal()
    core.x = inv(i=core.i, o=core.n)
    core.y = inv(i=core.n, o=core.o)
    chip = h.Module(name=f"Chip{k}")
    chip.i, chip.o = h.Port(), h.Port()
    chip.c = core(i=chip.i, o=chip.o)
    other = h.Module(name=f"Other{k}")
    other.i, other.o = h.Port(), h.Port()
    other.a = amp()(i=other.i, o=other.o)
    variants = [([inv, chip], None), ([chip, inv], None), ([inv, other, chip], None), ([core, inv, chip], None), ([chip], "mylib"), ([inv, chip], "mylib"), ([other], "lib.sub")]
    tops, dom = variants[k % len(variants)]
    try:
        pkg = h.to_proto(tops, domain=dom) if dom else h.to_proto(tops)
    except Exception:
        return []
    ev = {"src": "multitop", "P": proj_package(pkg, None)}
    ev.update(check_pkg(h, pkg))
    return [ev]


def from_suite(args):
    """a package some test of the repository's own test-suite exported (recorded by the export hook, harness/suite.py)"""
    src, raw = args
    from ..hd import h
    import vlsir.circuit_pb2 as vckt
    pkg = vckt.Package()
    pkg.ParseFromString(raw)
    ev = {"src": src, "P": proj_package(pkg, None)}
    ev.update(check_pkg(h, pkg))
    return [ev]


def _ex_worker(name):
    return from_example(name)


def run(tier, seed, replay_file=None):
    o = Outcome(PID, tier, seed)
    o.rule = ("packages: one per valid universe design (quick: seeded sample), every package exported by the seven examples' main() functions "
              "(export hook), every package exported while the repository's own test-suite runs (PDK-compiled designs included), built-in generators over their parameter ranges; non-trivial = has at least one instance; distinct by content.")
    o.trusted_base = ["harness/design.py projector (protobuf -> JSON)", "TLC", "vlsirtools netlisters and hdl21.from_proto as acceptance oracles (their verdict is logged, not interpreted)"]
    rnd = random.Random(seed)
    designs = universe.all_designs(tier, seed)
    if tier == "quick":
        designs = rnd.sample(designs, min(1500, len(designs)))
    evs = [e for e in pool_map(from_design, [(i, f, D) for i, (f, D) in enumerate(designs)], chunksize=32) if e]
    from .. import faults
    base = universe.all_designs(tier, seed)
    planted = faults.plant_all(base, "quick", rnd)
    if tier == "quick":
        planted = rnd.sample(planted, min(1200, len(planted)))
    for out in pool_map(from_retry, [(i, f, D) for i, (f, D) in enumerate(planted)], chunksize=32):
        evs += out
    o.cover["retry_after_failure_designs"] = len(planted)
    kinds = ["port", "signal", "inst", "array", "pair", "bundle"]
    for out in pool_map(from_rebinding, [(a, b) for a in kinds for b in kinds]):
        evs += out
        o.cover["rebinding"] = o.cover.get("rebinding", 0) + len(out)
    examples = ["ro", "rdac", "encoder", "mos_sim", "diff_ota", "idac", "bundles"]
    ex_errors = {}
    for (out, err), name in zip(pool_map(_ex_worker, examples, jobs=7), examples):
        evs += out
        if err:
            ex_errors[name] = err
        o.cover["example_" + name] = len(out)
    for out in pool_map(from_multitop, list(range(7))):
        evs += out
        o.cover["multitop"] = o.cover.get("multitop", 0) + len(out)
    for out in pool_map(from_twodomains, [0, 1, 2, 3]):
        evs += out
        o.cover["twodomains"] = o.cover.get("twodomains", 0) + len(out)
    for out in pool_map(from_gennames, list(range(len(GENNAME_PAIRS)))):
        evs += out
        o.cover["gennames"] = o.cover.get("gennames", 0) + len(out)
    # every package the repository's own tests export (PDK-compiled designs included)
    from .. import suite
    sjobs = []
    for r in suite.collect():
        if r["rc"] not in (0, 5):
            raise tlc.TlcError(f"test-suite under hooks did not pass: {r['file']}: {r['summary']}")
        sjobs += [(f"suite:{r['file']}::{t.split('::')[-1]}", raw) for t, raw in r["pkgs"]]
    for out in pool_map(from_suite, sjobs, chunksize=8):
        evs += out
    o.cover["suite_packages"] = len(sjobs)
    N = 6 if tier == "quick" else 16
    bjobs = [(k, n) for k in ("MosStack", "SeriesRes", "SeriesMod") for n in range(1, N + 1)] + [("CmDmGen", 0), ("Balun", 0), ("Wrapper", 0)]
    failed = []
    for out in pool_map(from_builtin, bjobs):
        for e in out:
            if "failed" in e:
                failed.append(e)
            else:
                evs.append(e)
                o.cover["builtin"] = o.cover.get("builtin", 0) + 1
    o.extra["examples_failed"] = ex_errors
    o.extra["builtins_failed"] = failed
    for i, e in enumerate(evs):
        e["tid"] = i
    files = tlc.split_batches([[e] for e in evs], WORK / "c06", f"tr-{tier}", NPROC)
    res = tlc.validate_batches("trace/Trace_Pkg.tla", "trace/Trace_Pkg.cfg", files, jobs=NPROC, tag="c06val")
    verdicts = {}
    for r in res:
        o.transitions += r.generated
        o.states += r.distinct
        for tid, ok, clause in r.verdicts:
            verdicts[tid] = (ok, clause)
    if len(verdicts) != len(evs):
        raise tlc.TlcError(f"C06: {len(evs)} packages, {len(verdicts)} verdicts")
    o.traces = o.evaluations = len(evs)
    seen = set()
    for i, e in enumerate(evs):
        key = json.dumps(e["P"], sort_keys=True)
        if key not in seen and any(m["insts"] for m in e["P"]["mods"].values()):
            seen.add(key)
        src = e["src"].split(":")[0].rstrip("0123456789")
        o.cover["src_" + src] = o.cover.get("src_" + src, 0) + 1
        ok, clause = verdicts[i]
        if not ok:
            o.violations.append(Violation(clause=clause.split(":")[0], case={"source": e["src"], "P": e["P"]},
                                          features=["src_" + src, clause] + (["source:" + e["src"]] if src in ("suite", "gennames") else []), detail=e.get("why")))
    o.distinct_nontrivial = len(seen)
    o.required_cover = ["example_ro", "example_rdac", "example_encoder", "example_diff_ota", "example_idac", "example_bundles", "builtin", "src_U_sig", "src_U_bundle", "rebinding", "retry_after_failure_designs", "suite_packages", "multitop", "gennames"]
    for i in rnd.sample(range(len(evs)), 2):
        o.samples.append({"source": evs[i]["src"], "modules": evs[i]["P"]["order"], "verdict": verdicts[i]})
    return o
