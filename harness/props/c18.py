"""C18 - Module and Bundle namespaces stay coherent under any edit sequence.

GEN : TLC enumerates every edit history of MC_Namespace (history kept in the state) and prints it.
RUN : each history is replayed on a real hdl21.Module / hdl21.Bundle; after every call the namespace,
      get(), attribute access, the per-kind views, parent pointers and object names are projected.
VAL : Trace_Namespace advances the spec state with Namespace!Apply and names the first failing clause.
"""
import json
import random
from pathlib import Path

from .. import tlc
from ..common import Outcome, Violation, WORK, NPROC, pool_map, chunks

PID = "C18"
ALPHA = ["a", "b", "_p"]


def _mk_env():
    from ..hd import h
    leaf = h.Module(name="Leaf")
    bund = h.Bundle(name="Bund")
    bund.x = h.Signal()
    return h, leaf, bund


def _make(h, leaf, bund, kind, name):
    kw = {} if name is None else {"name": name}
    if kind == "port":
        return h.Port(**kw)
    if kind == "signal":
        return h.Signal(**kw)
    if kind == "inst":
        return h.Instance(of=leaf, **kw)
    if kind == "array":
        return h.InstanceArray(of=leaf, n=2, **kw)
    if kind == "pair":
        return h.Pair(of=leaf, **kw)
    if kind == "bundle":
        return h.BundleInstance(of=bund, **kw)
    if kind == "nonhdl":
        return 5
    raise ValueError(kind)


def _mk_aux(h, leaf, target):
    """a finished library object beside the one under test; values are also taken from it by multiplication (`2 * aux.s` makes copies)"""
    if target == "module":
        aux = h.Module(name="Aux")
        aux.s, aux.p, aux.u = h.Signal(width=2), h.Input(), h.Instance(of=leaf)
    else:
        aux = h.Bundle(name="AuxB")
        aux.s, aux.p = h.Signal(width=2), h.Signal()
    return aux


def _project_aux(target, aux):
    pa = "_parent_module" if target == "module" else "_parent_bundle"
    views = ["ports", "signals", "instances", "instarrays", "instbundles", "bundles"] if target == "module" else ["signals", "bundles"]
    return [[n, v.name == n, getattr(v, pa, None) is aux, sorted(w for w in views if getattr(aux, w).get(n) is v)] for n, v in sorted(aux.namespace.items())]


def _project(h, target, obj, ids, reserved):
    def oid(x):
        return ids.get(id(x), -3) if x is not None else -1
    ns = obj.namespace
    ev = {"ns": [[n, oid(v)] for n, v in ns.items()]}
    ev["get"] = [[n, oid(obj.get(n))] for n in ALPHA + [reserved]]
    attr = []
    for n in ALPHA + [reserved]:
        try:
            attr.append([n, oid(getattr(obj, n))])
        except AttributeError:
            attr.append([n, -1])
    ev["attr"] = attr
    views = ["ports", "signals", "instances", "instarrays", "instbundles", "bundles"] if target == "module" else ["signals", "bundles"]
    ev["views"] = {v: [[n, oid(x)] for n, x in getattr(obj, v).items()] for v in views}
    pa = "_parent_module" if target == "module" else "_parent_bundle"
    ev["parent"] = [[n, getattr(v, pa, None) is obj] for n, v in ns.items()]
    ev["objname"] = [[n, v.name == n] for n, v in ns.items()]
    return ev


def replay(args):
    """Replay one history; returns the list of events."""
    tid, target, hist = args
    h, leaf, bund = _mk_env()
    reserved = "ports" if target == "module" else "signals"
    obj = h.Module(name="M") if target == "module" else h.Bundle(name="B")
    aux = _mk_aux(h, leaf, target)
    aux0 = _project_aux(target, aux)
    ids = {}
    keep = []
    events = []
    seq = 0
    for o in hist + [{"op": "export", "name": "", "kind": "", "mode": ""}]:
        seq += 1
        ev = {"tid": tid, "seq": seq, "target": target, "op": o["op"], "name": o["name"], "kind": o["kind"],
              "mode": o["mode"], "raised": False, "result": -1, "body": [], "psignals": [], "pports": [], "pinsts": []}
        try:
            if o["op"] in ("setattr", "add"):
                named = o["op"] == "add" and o["mode"] in ("named", "both")
                if o["op"] == "setattr" and o["mode"] == "mul" and o["kind"] in ("signal", "port"):
                    # the value is a copy made by multiplying an attribute of the OTHER object: 2 * aux.s
                    val = (2 * (aux.s if o["kind"] == "signal" or target == "bundle" else aux.p))[seq % 2]
                else:
                    val = _make(h, leaf, bund, o["kind"], o["name"] if named else None)
                keep.append(val)
                ids[id(val)] = seq
                if o["op"] == "setattr":
                    setattr(obj, o["name"], val)
                elif o["mode"] in ("kw", "both"):
                    obj.add(val, name=o["name"])
                else:
                    obj.add(val)
            elif o["op"] == "readd":
                cur = obj.get(o["name"])
                if cur is None:
                    raise LookupError("unbound")
                if o["mode"] == "set":
                    setattr(obj, o["name"], cur)
                else:
                    obj.add(cur)
            elif o["op"] == "mulinst":
                cur = obj.get(o["mode"])
                if cur is None:
                    raise LookupError("unbound")
                setattr(obj, o["name"], 2 * cur)          # multiplying an Instance this module already holds
            elif o["op"] == "extfromports":
                keep.append(h.ExternalModule(name="bb", port_list=list(aux.ports.values()) + list(obj.ports.values())[:1], desc="black box"))
            elif o["op"] == "alias":
                cur = obj.get(o["mode"])
                if cur is None:
                    raise LookupError("unbound")
                setattr(obj, o["name"], cur)
            elif o["op"] == "get":
                r = obj.get(o["name"])
                ev["result"] = ids.get(id(r), -3) if r is not None else -1
            elif o["op"] == "del":
                delattr(obj, o["name"])
            elif o["op"] == "subclass":
                type("Sub", (type(obj),), {})
            elif o["op"] == "elab":
                if target == "module":
                    h.elaborate(obj)
            elif o["op"] == "export":
                if target == "module":
                    pkg = h.to_proto(obj)
                    pm = [m for m in pkg.modules if m.name.endswith(".M")][0]
                    ev["psignals"] = [s.name for s in pm.signals]
                    ev["pports"] = [p.signal for p in pm.ports]
                    ev["pinsts"] = [i.name for i in pm.instances]
        except Exception as ex:  # any exception is a rejection
            ev["raised"] = True
            ev["exc"] = type(ex).__name__
        ev.update(_project(h, target, obj, ids, reserved))
        ev["aux"], ev["aux0"] = _project_aux(target, aux), aux0
        events.append(ev)
    return events


def replay_classdef(args):
    tid, target, body = args
    h, leaf, bund = _mk_env()
    reserved = "ports" if target == "module" else "signals"
    ids = {}
    d = {}
    b3 = []
    made = []
    for k, item in enumerate(body):
        n, kind = item[0], item[1]
        alias_of = item[2] if len(item) > 2 else None
        if alias_of is not None:
            # `p = n = h.Signal()` in a class body: the object of an earlier entry under a second name
            val = made[alias_of]
            b3.append([n, kind, alias_of + 1])
        else:
            val = _make(h, leaf, bund, kind, None)
            ids[id(val)] = k + 1
            b3.append([n, kind, k + 1])
        made.append(val)
        d[n] = val
    # class body dict: a later assignment to a name replaces the earlier one (Python semantics), so the
    # body the decorator sees is the last binding per name, in first-binding order
    seen = {}
    for n, kind, i in b3:
        seen[n] = [n, kind, i]
    ev = {"tid": tid, "seq": 1, "target": target, "op": "classdef", "name": "", "kind": "", "mode": "",
          "raised": False, "result": -1, "body": list(seen.values()), "psignals": [], "pports": [], "pinsts": [], "aux": [], "aux0": []}
    obj = None
    try:
        cls = type("M" if target == "module" else "B", (), dict(d))
        obj = h.module(cls) if target == "module" else h.bundle(cls)
    except Exception as ex:
        ev["raised"] = True
        ev["exc"] = type(ex).__name__
    if obj is None:
        ev.update({"ns": [], "get": [], "attr": [], "views": {v: [] for v in (["ports", "signals", "instances", "instarrays", "instbundles", "bundles"] if target == "module" else ["signals", "bundles"])}, "parent": [], "objname": []})
    else:
        ev.update(_project(h, target, obj, ids, reserved))
    return [ev]


RESERVED_ALL = ("ports", "signals", "roles", "props")


def features(target, hist):
    """Declarative features of a history (used only to attribute failures to listed findings)."""
    f = {f"target_{target}"}
    last = {}
    for o in hist:
        if o["op"] in ("setattr", "add") and o["kind"] != "nonhdl" and o["name"] not in ("_p",):
            if o["op"] == "add" and o["mode"] in ("both", "none"):
                continue
            n, k = o["name"], o["kind"]
            view = {"port": "P", "signal": "S"}.get(k, k)
            if target == "bundle" and k in ("port", "signal"):
                view = "S"
            if n in last and last[n] != view:
                f.add("rebind_other_kind")
            last[n] = view
        if o["op"] == "add" and o["name"] in ("ports", "signals") and o["mode"] == "kw":
            f.add("add_reserved_name")
        if o["op"] == "elab":
            f.add("elab")
    return sorted(f)


def run(tier, seed, replay_file=None):
    o = Outcome(PID, tier, seed)
    o.rule = ("edit histories enumerated by TLC from MC_Namespace (history kept in the state); a history is non-trivial "
              "if it binds at least one name; distinct = distinct histories")
    o.trusted_base = ["harness/props/c18.py driver + projector", "TLC", "Json community module"]
    work = WORK / "c18"
    work.mkdir(parents=True, exist_ok=True)
    hists = []  # (target, hist)
    if replay_file:
        rp = json.loads(Path(replay_file).read_text())
        hists = [(rp["case"]["target"], rp["case"]["hist"])]
    else:
        if tier == "quick":
            cfgs = [("module", "mc/MC_Namespace_mod2.cfg"), ("module", "mc/MC_Namespace_mod3a.cfg"), ("bundle", "mc/MC_Namespace_bun3.cfg")]
        else:
            cfgs = [("module", "mc/MC_Namespace_mod3.cfg"), ("bundle", "mc/MC_Namespace_bun3.cfg")]
        for target, cfg in cfgs:
            r = tlc.must_ok(tlc.run("mc/MC_Namespace.tla", cfg, workers=1, tag="c18gen"), cfg)
            o.add_mc("MC_Namespace", r, cfg)
            hists += [(target, c) for c in r.cases]
        o.exhaustive = True
        if tier == "thorough":
            srnd = random.Random(seed + 7)
            # (a simulated behaviour prints every candidate last step, ~50 histories per behaviour: a seeded sample of `n` of them is replayed)
            for target, cfg, nb, n in (("module", "mc/MC_Namespace_mod6.cfg", 4000, 60000), ("bundle", "mc/MC_Namespace_bun6.cfg", 1500, 20000)):
                r = tlc.run("mc/MC_Namespace.tla", cfg, workers=1, simulate=f"num={nb}", depth=7, seed=seed + 1, tag="c18sim")
                if r.rc not in (0,):
                    raise tlc.TlcError(f"simulate failed rc={r.rc}: {r.out[-2000:]}")
                o.mc_runs.append({"spec": "MC_Namespace(simulate)", "constants": cfg, "behaviours": len(r.cases)})
                o.transitions += r.generated
                picked = r.cases if len(r.cases) <= n else srnd.sample(r.cases, n)
                hists += [(target, c) for c in picked]
                del r
    # RUN + VAL, in chunks (the projected traces of 200k histories do not fit in memory at once)
    cd = []
    seen = set()
    for t, hs in hists:
        body = tuple((x["name"], x["kind"]) for x in hs if x["op"] == "setattr")
        if body and (t, body) not in seen and len(body) == len(hs) and all(k != 'nonhdl' for _, k in body):
            seen.add((t, body))
            cd.append((t, list(body)))
    # ... and the same bodies with the second entry being the FIRST entry's object under another name
    for t, b in list(cd):
        if len(b) >= 2 and b[0][0] != b[1][0] and len(cd) < 4 * len(seen):
            cd.append((t, [b[0], (b[1][0], b[0][1], 0)] + list(b[2:])))
    base = len(hists)
    alljobs = [("h", i, t, hs) for i, (t, hs) in enumerate(hists)] + [("c", base + i, t, b) for i, (t, b) in enumerate(cd)]
    rnd = random.Random(seed)
    sample_ids = set(rnd.sample(range(len(alljobs)), min(3, len(alljobs))))
    CH = 24000
    ntraces = 0
    for c0 in range(0, len(alljobs), CH):
        chunk = alljobs[c0:c0 + CH]
        traces = pool_map(replay, [(i, t, x) for k, i, t, x in chunk if k == "h"], chunksize=256)
        traces += pool_map(replay_classdef, [(i, t, x) for k, i, t, x in chunk if k == "c"], chunksize=256)
        files = tlc.split_batches(traces, work, f"tr-{tier}", NPROC)
        results = tlc.validate_batches("trace/Trace_Namespace.tla", "trace/Trace_Namespace.cfg", files, jobs=NPROC, tag="c18val")
        verdicts = {}
        for r in results:
            o.transitions += r.generated
            for tid, ok, clause in r.verdicts:
                verdicts[tid] = (ok, clause)
        if len(verdicts) != len(traces):
            raise tlc.TlcError(f"C18: {len(traces)} traces but {len(verdicts)} verdicts")
        ntraces += len(traces)
        o.evaluations += sum(len(t) for t in traces)
        for tr in traces:
            for ev in tr:
                k = ev["op"] + ("_raised" if ev["raised"] else "")
                o.cover[k] = o.cover.get(k, 0) + 1
            i = tr[0]["tid"]
            ok, clause = verdicts[i]
            if i in sample_ids:
                o.samples.append({"events": [{k: v for k, v in ev.items() if k in ("op", "name", "kind", "mode", "raised", "ns", "views")} for ev in tr], "verdict": [ok, clause]})
            if not ok:
                if i < base:
                    t, hs = hists[i]
                    case = {"target": t, "hist": hs}
                    feats = features(t, hs)
                    # is the step that fails itself an add() under a reserved name?  (the listed finding covers exactly that, not whatever
                    # else goes wrong in a history that happens to contain such a step)
                    try:
                        k = int(clause.split("@")[1]) - 1
                        if hs[k]["op"] == "add" and hs[k]["mode"] == "kw" and hs[k]["name"] in RESERVED_ALL:
                            feats = feats + ["failing_step_is_add_under_reserved_name"]
                    except Exception:
                        pass
                else:
                    t, b = cd[i - base]
                    case = {"target": t, "classdef": b, "hist": [{"op": "setattr", "name": x[0], "kind": x[1], "mode": ""} for x in b]}
                    feats = features(t, case["hist"]) + ["classdef"]
                o.violations.append(Violation(clause=clause, case=case, features=feats, detail=tr if len(o.violations) < 30 else None))
        del traces, results, verdicts
    if tier == "thorough" and not replay_file:
        # cross-check (not the deciding engine): Apalache proves Coherent an inductive invariant of the insertion algorithm - any number of
        # insertions over any names, kinds and ids - and refutes it for the pinned tree's variant, which evicted from one view only
        from .. import apalache
        o.extra["apalache"] = [apalache.inductive("NsInd", "CInit", "NoError"), apalache.inductive("NsInd", "CInitPinned", "Error")]
    o.traces = ntraces
    o.distinct_nontrivial = sum(1 for t, hs in hists if any(x["op"] in ("setattr", "add") for x in hs)) + len(cd)
    o.required_cover = ["alias_raised", "readd", "setattr", "add", "get", "del_raised", "subclass_raised", "elab", "export", "classdef", "setattr_raised", "add_raised"]
    return o
