"""C12 - output is reproducible across processes.

The mechanism is modelled in sched/Repro.tla (visits of a hash-ordered back-reference set: confluent iff ordered) and model-checked.
The code is then sampled: a list of design programs (universe designs with one bundle feeding several ports, implicit signals,
generator-made modules, arrays, pairs, hierarchies) is run in N fresh interpreters, each with its own PYTHONHASHSEED, its own program
order and its own amount of unrelated allocation and elaboration; every output (serialized package, spice / spectre / verilog netlist)
is a single-assignment register over all interpreters, decided by TLC (Trace_Register).
"""
import json
import os
import random
import subprocess
from concurrent.futures import ThreadPoolExecutor
from pathlib import Path

from .. import tlc, universe as U
from ..common import Outcome, Violation, WORK, NPROC
from ..design import Sig, Bund, Anon, Pref, Bref

PID = "C12"


def multi_port_designs():
    """one bundle instance feeding several bundle-valued ports of ONE instance, and of several instances"""
    out = []
    bundles = {"B1": U.B1}
    for nports in (2, 3, 4):
        ports = [f"b{k}" for k in range(nports)]
        cb = U.mod([], [x for p in ports for x in U.bprobes(p, U.B1_LEAVES)], [U.bnd(p, "B1", port=True) for p in ports], probes=False)
        for variant in ("same", "refs", "mixed", "subref"):
            conns = []
            for k, p in enumerate(ports):
                if variant == "same":
                    t = Bund("b")
                elif variant == "refs":
                    t = Bund("b") if k == 0 else Pref("i", ports[0])
                elif variant == "subref":
                    t = Bref("n2", "sub")          # ONE reference to a sub-bundle of a nested bundle, feeding several ports
                else:
                    t = Bund("b") if k % 2 == 0 else Anon(x=Bref("b", "x"), y=Bref("c", "y"))
                conns.append((p, t))
            insts = [U.inst("i", "CBM", conns), U.inst("j", "CBM", list(reversed(conns)))]
            top = U.mod([U.sig("s")], insts + U.bprobes("b", U.B1_LEAVES), [U.bnd("b", "B1"), U.bnd("c", "B1"), U.bnd("n2", "B2")], probes=False)
            out.append(("multi_port", U.design({"CBM": cb, "Top": top}, bundles=dict(bundles, B2=U.B2))))
    return out


def programs(tier, seed):
    rnd = random.Random(seed)
    ds = multi_port_designs()
    base = U.all_designs("quick", seed)
    per = 25 if tier == "quick" else 250
    byfam = {}
    for f, D in base:
        byfam.setdefault(f, []).append(D)
    for f, lst in byfam.items():
        ds += [(f, D) for D in rnd.sample(lst, min(per, len(lst)))]
    progs = []
    for k, (fam, D) in enumerate(ds):
        progs.append({"id": f"{fam}#{k}", "D": D, "style": "gen" if k % 3 == 0 else "proc"})
    # several instance arrays in ONE module (whatever order the elaborator takes them in must be the designer's, not a hash order) ...
    for names in (["arr", "x1", "zz", "b0"], ["u", "v", "w", "a", "m", "k"], ["stage", "bias", "load"]):
        sigs = [U.sig("s", 1)] + [U.sig("w_" + n, 2) for n in names]
        insts = [U.inst(n, "L1", [("a", Sig("w_" + n) if k % 2 else Sig("s"))], kind="array", arr=2, k="ext") for k, n in enumerate(names)]
        progs.append({"id": f"arrays#{len(progs)}", "D": U.design({"Top": U.mod(sigs, insts)}), "style": "proc"})
    # ... and a module with several bundle-valued ports sent through the built-in Wrapper generator
    for nports in (2, 3, 4, 6):
        ports = [f"{'pqbxza'[k]}{k}" for k in range(nports)]
        cb = U.mod([], [x for p in ports for x in U.bprobes(p, U.B1_LEAVES)], [U.bnd(p, "B1", port=True) for p in ports], probes=False)
        progs.append({"id": f"wrapper#{len(progs)}", "kind": "wrap", "D": U.design({"Top": cb}, bundles={"B1": U.B1}), "style": "proc"})
    # parameterised generators: names made from parameter values (readable form, and md5 of JSON for nested / long / ambiguous values), with unrelated
    # earlier calls in the same process that use equal values written differently
    twins = {1: [1.0], 4: [4.0], 2.5: [2.5], 0: [0.0, -0.0]}
    sizes = [{"w": 1}, {"w": 4, "nf": 2}, {"w": 2.5, "tag": "a b"}, {"w": 1, "tag": "x" * 130}, {"w": 0, "inner": {"x": 2}}, {"w": 1, "p": ["1000", -3]},
             {"w": 4, "p": ["1", 3], "fl": "B"}, {"w": 1, "inner": {"x": 1, "y": "q r"}, "nf": 3}]
    ptwins = {("1000", -3): ["1", 0], ("1", 3): ["1000", 0]}
    plains = [{"a": 1}, {"a": 2, "s": "y"}, {"a": 1, "s": "x b=y"}, {"a": 3, "s": "z" * 125}]
    npg = 12 if tier == "quick" else 60
    for k in range(npg):
        calls, earlier = [], []
        for _ in range(rnd.randint(2, 4)):
            r = rnd.random()
            if r < 0.6:
                kw = rnd.choice(sizes)
                calls.append({"g": "RcStage", "kw": kw})
                for t in twins[kw["w"]]:
                    e = dict(kw, w=t)
                    if "p" in e:
                        e["p"] = ptwins[tuple(e["p"])]
                    earlier.append(e)
            elif r < 0.8:
                calls.append({"g": "Leaf", "kw": rnd.choice(plains)})
            else:
                calls.append({"g": "Wrap", "kw": rnd.choice(plains), "n": rnd.randint(1, 3)})
        progs.append({"id": f"pgen#{len(progs)}", "kind": "pgen", "calls": calls, "earlier": earlier})
    # hierarchies run through the separate flatten() utility before export
    from . import c16
    leaves = dict(U.LEAVES)
    leaves["Mos"] = [{"n": x, "w": 1} for x in ("d", "g", "s", "b")]
    for k in range(10 if tier == "quick" else 60):
        fam, D = c16.random_hier(rnd, leaves)
        progs.append({"id": f"flat#{len(progs)}", "kind": "flat", "D": D, "style": "proc"})
    return progs


def run(tier, seed, replay_file=None):
    o = Outcome(PID, tier, seed, level="exploration")
    o.rule = ("programs: multi-port bundle designs + a seeded sample of every universe family, built procedurally or inside generators, + chains of parameterised "
              "generator calls (names from parameter values: readable and md5 forms; earlier calls in the same process with equal values written differently); each run in N fresh "
              "interpreters (quick 8, thorough 32) with PYTHONHASHSEED = 0..N-1 (and one 'random'), shuffled program order, seeded junk allocation and "
              "unrelated elaboration; non-trivial = the program exported (4 outputs); distinct by program. The configuration space is sampled, not exhausted.")
    o.trusted_base = ["harness/repro_worker.py, harness/props/c12.py (digests of SerializeToString(deterministic=True) and of netlist text)", "TLC"]
    for cfg, expect in (("mc/MC_Repro.cfg", 0), ("mc/MC_Repro_unsorted.cfg", 12)):
        r = tlc.run("mc/MC_Repro.tla", cfg, workers=2, tag="c12mc")
        if r.rc != expect:
            raise tlc.TlcError(f"{cfg}: expected TLC exit {expect}, got {r.rc}: {r.out[-800:]}")
        o.add_mc("MC_Repro", r, cfg + (" (ordered visits: confluent)" if expect == 0 else " (environment-chosen order: TLC finds the non-confluent behaviour, as expected)"))
    progs = programs(tier, seed) if not replay_file else json.loads(Path(replay_file).read_text())["case"]["programs"]
    work = WORK / "c12"
    work.mkdir(parents=True, exist_ok=True)
    pf = work / f"programs-{tier}.json"
    pf.write_text(json.dumps(progs))
    N = 8 if tier == "quick" else 32
    envs = [(str(k), seed * 1000 + k) for k in range(N - 1)] + [("random", seed * 1000 + N)]

    def one(env):
        hs, es = env
        e = dict(os.environ)
        e["PYTHONHASHSEED"] = hs
        e["HDL21_VERIF"] = "1"
        p = subprocess.run(["/venv/bin/python", "-m", "harness.repro_worker", str(pf), str(es)], cwd="/verif", env=e, capture_output=True, text=True, timeout=3000)
        if p.returncode != 0:
            raise tlc.TlcError(f"repro worker failed (hashseed {hs}): {p.stderr[-800:]}")
        return [json.loads(l[4:]) for l in p.stdout.splitlines() if l.startswith("OUT ")]
    with ThreadPoolExecutor(max_workers=NPROC) as ex:
        results = list(ex.map(one, envs))
    traces = []
    for tid, (env, outs) in enumerate(zip(envs, results)):
        traces.append([{"tid": tid, "key": x["key"], "val": x["val"]} for x in sorted(outs, key=lambda x: x["key"])])
    files = tlc.split_batches(traces, work, f"reg-{tier}", 1)
    res = tlc.validate_batches("trace/Trace_Register.tla", "trace/Trace_Register.cfg", files, jobs=1, tag="c12reg")
    verdicts = {}
    for r in res:
        o.transitions += r.generated
        for tid, ok, clause in r.verdicts:
            verdicts[tid] = (ok, clause)
    if len(verdicts) != len(envs):
        raise tlc.TlcError(f"C12: {len(envs)} environments, {len(verdicts)} verdicts")
    o.traces = len(envs)
    o.evaluations = sum(len(t) for t in traces)
    exported = {x["key"].split("|")[0] for t in traces for x in t if x["key"].endswith("|proto") and not x["val"].startswith("raised")}
    o.distinct_nontrivial = len(exported)
    # which keys differ anywhere (for the report)
    vals = {}
    for t in traces:
        for x in t:
            vals.setdefault(x["key"], set()).add(x["val"])
    differing = sorted(k for k, v in vals.items() if len(v) > 1)
    o.extra["environments"] = [e[0] for e in envs]
    o.extra["outputs_per_environment"] = len(traces[0]) if traces else 0
    o.extra["differing_outputs"] = differing[:50]
    for fam in {p["id"].split("#")[0] for p in progs}:
        o.cover["fam_" + fam] = sum(1 for p in progs if p["id"].startswith(fam + "#"))
    o.cover["environments"] = len(envs)
    byprog = {p["id"]: p for p in progs}
    for tid, (ok, clause) in verdicts.items():
        if not ok:
            key = clause.split(":", 1)[1] if ":" in clause else clause
            pidk = key.split("|")[0]
            fam = pidk.split("#")[0]
            o.violations.append(Violation(clause="output_differs_between_processes", case={"programs": [byprog[pidk]] if pidk in byprog else [], "key": key, "hashseed": envs[tid][0]},
                                          features=["fam_" + fam, "format_" + key.split("|")[-1]], detail={"values": sorted(vals.get(key, []))}))
    o.required_cover = ["fam_multi_port", "fam_U_bundle", "fam_U_pref", "fam_U_hier", "fam_pgen", "fam_flat", "environments"]
    o.samples = [{"program": progs[0]["id"], "outputs": [x for x in traces[0] if x["key"].startswith(progs[0]["id"] + "|")]}]
    return o
