"""C09 - generator calls are memoised and their modules uniquely named.

GEN : TLC enumerates call sequences of MC_GenCache (generators of kind fresh / nest / pass / rec, spellings of equal and
      unequal parameter values, keyword vs instance call form); a seeded Python generator adds sequences over richer
      param-class shapes (optional, enum, nested, Prefixed/Scalar, Module- and Generator-valued, adversarial strings).
RUN : each sequence is replayed on real @h.generator functions whose bodies log their own execution.
VAL : Trace_GenCache replays the cache (GenCache's Hit / Miss discipline) and checks identity, single body execution,
      distinctness, name stability, name uniqueness and - across all traces of the batch, which run in different orders
      and processes - that the name of <<generator, parameter value>> is always the same.
"""
import json
import random
from decimal import Decimal, localcontext
from enum import Enum
from pathlib import Path
from typing import Optional, Tuple, Union

from .. import tlc
from ..common import Outcome, Violation, WORK, NPROC, pool_map

PID = "C09"


class Color(Enum):
    RED = "red"
    BLUE = "blue"


# ---- canonical parameter values: an independent statement of "equal parameters" (by declared field type) ----
def canon_num(v):
    with localcontext() as ctx:
        ctx.prec = 400
        d = Decimal(str(v)) if not isinstance(v, Decimal) else v
        return format(d.normalize() + 0, "f") if d != 0 else "0"


def canon(tag, v, env):
    if tag == "int":
        return "i" + str(int(float(v))) if not isinstance(v, str) else "i" + str(int(v))
    if tag == "float":
        return "f" + (float(v).hex() if float(v) != 0 else "0")     # -0.0 and 0.0 are equal numbers
    if tag == "str":
        return "s" + json.dumps(v)
    if tag == "optint":
        return "n" if v is None else canon("int", v, env)
    if tag == "optstr":
        return "n" if v is None else canon("str", v, env)
    if tag == "enum":
        return "e" + v.name
    if tag == "prefixed" or tag == "scalar":
        from hdl21.prefix import Prefixed
        from hdl21.literal import Literal
        if isinstance(v, Literal):
            return "l" + json.dumps(v.text)
        if isinstance(v, Prefixed):
            with localcontext() as ctx:
                ctx.prec = 400
                return "x" + canon_num(v.number.scaleb(v.prefix.value))
        if isinstance(v, str):
            try:
                return "x" + canon_num(Decimal(v))
            except Exception:
                return "l" + json.dumps(v)
        return "x" + canon_num(v)
    if tag == "nested":
        if isinstance(v, dict):
            x, y = v.get("x", 1), v.get("y", "q")
        else:
            x, y = v.x, v.y
        return "p(" + canon("int", x, env) + "," + canon("str", y, env) + ")"
    if tag == "module":
        return "m" + str(env["tokens"][id(v)])
    if tag == "number":          # an un-coerced number: equal numbers (1 and 1.0, 0 and -0.0, 10**20 and 1e20) are one value
        return "u" + (str(int(v)) if float(v).is_integer() else float(v).hex())
    if tag == "numlist":
        return "L(" + ",".join(canon("number", x, env) for x in v) + ")"
    if tag == "decimal":         # Decimal / float / int in one un-coerced field: equal numbers are one value however they are written
        d = v if isinstance(v, Decimal) else Decimal(repr(v)) if isinstance(v, float) else Decimal(v)
        return "D" + canon_num(d)
    if tag == "optint5":
        return "n" if v is None else canon("int", v, env)
    if tag == "numnest":
        return "N(" + ",".join(canon("numlist", x, env) for x in v) + ")"
    if tag == "ecall":
        return "x" + str(env["etokens"][id(v)])
    if tag == "gen":
        return "g" + str(env["gtokens"][id(v)])
    if tag == "complex":
        return "c" + repr(complex(v))
    raise ValueError(tag)


GEN_SPECS = {
    # name: (kind, callee, [(field, tag, default)])
    "GA": ("fresh", None, [("a", "int", None), ("b", "str", "x")]),
    "GN": ("nest", "GA", [("a", "int", None)]),
    "GP": ("pass", "GA", [("a", "int", None)]),
    "GR": ("rec", "GR", [("a", "int", None)]),
    "GF": ("fresh", None, [("f", "float", None), ("t", "optstr", "NONE"), ("n", "int", 1)]),     # all-scalar with a float: readable names
    "GT": ("sat", "GT", [("a", "int", None)]),          # saturating: for a > 2 it hands along ITS OWN result for a = 2
    "GS": ("fresh", None, [("a", "str", None), ("b", "str", "q")]),
    "GB": ("fresh", None, [("f", "float", None), ("o", "optint", "NONE"), ("e", "enum", Color.RED), ("t", "optstr", "NONE")]),
    "GC": ("fresh", None, [("n", "nested", "FACTORY"), ("p", "prefixed", "ONE"), ("s", "scalar", 1)]),
    "GD": ("fresh", None, [("m", "module", None), ("k", "int", 0)]),
    "GX": ("fresh", None, [("c", "complex", None), ("k", "int", 0)]),     # a value the naming serialiser may refuse: calls may raise
    "GM": ("fresh", None, [("n", "number", None), ("v", "numlist", "LIST"), ("w", "numnest", "LIST")]),
    "GQ": ("fresh", None, [("d", "decimal", None)]),                      # Decimal-typed values: 1, 1.0, 1E+3, 1000, 0.5, 0.50
    "GO": ("fresh", None, [("t", "optint5", 5), ("k", "int", 0)]),        # an Optional field whose default is NOT None: an explicit None is a value
    "GL": ("select", None, [("a", "int", None)]),                         # a selector between pre-defined cells: hands back a Module made outside it (one per value)
    "GE": ("fresh", None, [("c", "ecall", None), ("k", "int", 0)]),      # an ExternalModuleCall-valued parameter: like-named external modules of two Python modules
    "GG": ("fresh", None, [("g", "gen", None), ("k", "int", 0)]),        # a Generator-valued parameter: like-named generators of different Python modules
    "GU": ("uncached", None, [("a", "int", None)]),                       # enable_cache=False, result depends on more than its parameters
}
MAYRAISE = {"GX"}
KINDS = {g: ("pass" if s[0] == "sat" else "fresh" if s[0] == "select" else s[0]) for g, s in GEN_SPECS.items()}


_FOREIGN = []


def foreign_generators():
    """generators defined in two separate Python modules (written to the work directory and imported): pa.Unit, pb.Unit - same function name -, pa.Other"""
    if not _FOREIGN:
        import importlib
        import os
        import sys
        root = WORK / "c09mods" / str(os.getpid())
        for pkg, body in (("c09pa", "Unit"), ("c09pb", "Unit")):
            d = root / pkg
            d.mkdir(parents=True, exist_ok=True)
            src = ("import hdl21 as h\n\n\n@h.generator\ndef Unit(p: h.HasNoParams) -> h.Module:\n    m = h.Module()\n    m.a = h.Signal(width=%d)\n    return m\n\n\n"
                   "@h.generator\ndef Other(p: h.HasNoParams) -> h.Module:\n    m = h.Module()\n    m.b = h.Signal()\n    return m\n\n\n"
                   "nand2 = h.ExternalModule(name='nand2', port_list=[h.Port(name='a')], desc='a vendor cell')\n"
                   "other = h.ExternalModule(name='other', port_list=[h.Port(name='a')], desc='a vendor cell')\n") % (1 if pkg == "c09pa" else 2)
            (d / "__init__.py").write_text(src)
        sys.path.insert(0, str(root))
        pa, pb = importlib.import_module("c09pa"), importlib.import_module("c09pb")
        _FOREIGN.extend([pa.Unit, pb.Unit, pa.Other])
        _FOREIGN_EXT.extend([pa.nand2(), pb.nand2(), pa.other(), pa.nand2()])        # the last is equal to the first: one value, two objects
    return _FOREIGN


_FOREIGN_EXT = []


def foreign_ext_calls():
    foreign_generators()
    return _FOREIGN_EXT


def make_env(h):
    """Fresh generators (and a fresh cache) for one history."""
    h.generator.cache.reset()
    env = {"log": [], "nested": [], "mods": {}, "order": [], "tokens": {}, "gens": {}, "ptypes": {}, "modkind": {}}

    @h.paramclass
    class NP:
        x = h.Param(dtype=int, desc="x", default=1)
        y = h.Param(dtype=str, desc="y", default="q")
    env["NP"] = NP
    dt = {"int": int, "float": float, "str": str, "optint": Optional[int], "optstr": Optional[str], "enum": Color,
          "prefixed": h.Prefixed, "scalar": h.Scalar, "nested": NP, "module": h.Instantiable, "complex": complex,
          "number": Union[int, float], "numlist": Tuple[Union[int, float], ...], "gen": h.Generator, "numnest": tuple, "ecall": h.ExternalModuleCall,
          "decimal": Union[Decimal, float, int], "optint5": Optional[int]}
    env["ecalls"] = foreign_ext_calls()
    env["etokens"] = {id(c): k % 3 for k, c in enumerate(env["ecalls"])}        # (the fourth call equals the first: same external module, same parameters)
    env["gunits"] = foreign_generators()
    env["gtokens"] = {id(g): k for k, g in enumerate(env["gunits"])}
    m1 = h.Module(name="Unit1")
    m2 = h.Module(name="Unit2")
    env["units"] = [m1, m2, h.Module(name="Unit3"), h.Module(name="Unit4")]
    for k, u in enumerate(env["units"]):
        env["tokens"][id(u)] = k
    env["cells"] = []
    for k in range(3):
        c = h.Module(name=f"Cell{k}")
        c.add(h.Signal(name="s", width=k + 1))
        env["cells"].append(c)
    from hdl21.prefix import Prefixed, Prefix

    def mk_ptype(gname, fields):
        ns = {}
        for fname, tag, default in fields:
            kw = {}
            if default == "NONE":
                kw["default"] = None
            elif default == "LIST":
                kw["default"] = ()
            elif default == "FACTORY":
                kw["default_factory"] = NP
            elif default == "ONE":
                kw["default"] = Prefixed(number=Decimal(1), prefix=Prefix.UNIT)
            elif default is not None:
                kw["default"] = default
            ns[fname] = h.Param(dtype=dt[tag], desc=fname, **kw)
        return h.paramclass(type(gname + "Params", (), ns))

    def token(m):
        if id(m) not in env["mods"]:
            env["mods"][id(m)] = len(env["mods"]) + 1
            env["order"].append(m)
        return env["mods"][id(m)]
    env["token"] = token

    def key_of(gname, params):
        return "|".join(canon(tag, getattr(params, f), env) for f, tag, _ in GEN_SPECS[gname][2])

    def subcall(gname, **kw):
        m = env["gens"][gname](**kw)
        p = env["ptypes"][gname](**kw)
        env["nested"].append([gname, key_of(gname, p), token(m), KINDS[gname]])
        return m

    for gname, (kind, callee, fields) in GEN_SPECS.items():
        P = mk_ptype(gname, fields)
        env["ptypes"][gname] = P

        def mk_body(gname, kind, callee):
            def body(params):
                env["log"].append([gname, key_of(gname, params)])
                if kind == "pass":
                    return subcall(callee, a=params.a, b="p")
                if kind == "select":
                    return env["cells"][params.a]
                if kind == "sat" and params.a > 2:
                    return subcall(gname, a=2)
                m = h.Module()
                if kind == "uncached":
                    env["ucount"] = env.get("ucount", 0) + 1
                    m.add(h.Signal(name="s", width=env["ucount"]))
                if kind == "nest":
                    m.add(subcall(callee, a=params.a, b="n")(), name="i")
                elif kind == "rec" and params.a > 0:
                    m.add(subcall(gname, a=params.a - 1)(), name="i")
                return m
            return body
        body = mk_body(gname, kind, callee)
        body.__name__ = gname
        body.__annotations__ = {"params": P, "return": h.Module}
        env["gens"][gname] = h.generator(body) if kind != "uncached" else h.generator(enable_cache=False)(body)
    return env


QUICK_VALS = {1: 1, 2: 1.0, 3: 2, 4: 0}


def concretize(env, step):
    """abstract step -> (generator name, kwargs)"""
    g = step["g"]
    if "kw" in step:
        kw = dict(step["kw"])
        for f, tag, _ in GEN_SPECS[g][2]:
            if f in kw and tag == "module":
                kw[f] = env["units"][kw[f]]
            if f in kw and tag == "enum":
                kw[f] = Color[kw[f]]
            if f in kw and tag == "gen":
                kw[f] = env["gunits"][kw[f]]
            if f in kw and tag == "ecall":
                kw[f] = env["ecalls"][kw[f]]
            if f in kw and tag == "decimal" and isinstance(kw[f], str):
                kw[f] = Decimal(kw[f][1:])
            if f in kw and tag == "numnest":
                kw[f] = tuple(tuple(x) for x in kw[f])
            if f in kw and tag in ("prefixed", "scalar") and isinstance(kw[f], list):
                from hdl21.prefix import Prefixed, Prefix
                kw[f] = Prefixed(number=Decimal(kw[f][0]), prefix=Prefix.from_exp(kw[f][1]))
        return g, kw
    return g, {"a": QUICK_VALS[step["v"]]}


def replay(args):
    tid, hist = args
    from ..hd import h
    env = make_env(h)
    events = []
    seq = 0
    if tid % 4 == 3:
        # ... and in every fourth the pre-defined cells a selecting generator hands back were elaborated on their own beforehand
        for c in env["cells"]:
            h.elaborate(c)
    for step in hist:
        seq += 1
        g, kw = concretize(env, step)
        env["log"].clear()
        env["nested"].clear()
        ev = {"tid": tid, "seq": seq, "op": "call", "g": g, "kind": KINDS[g], "mayraise": g in MAYRAISE, "kinds": KINDS, "form": step["form"], "key": "", "raised": False,
              "mod": 0, "name": "", "nested": [], "bodies": [], "mods": [], "npkg": 0, "nmods": 0}
        try:
            P = env["ptypes"][g]
            ev["key"] = "|".join(canon(tag, getattr(P(**kw), f), env) for f, tag, _ in GEN_SPECS[g][2])
            if step["form"] == "kw":
                m = env["gens"][g](**kw)
            else:
                m = env["gens"][g](P(**kw))
            ev["mod"] = env["token"](m)
            env["modkind"].setdefault(id(m), KINDS[g])
            ev["name"] = m.name
            if tid % 2:
                # in every second history each returned module is elaborated right away: what later calls hand along, or find cached, has
                # then been through elaboration - its name must not care
                try:
                    h.elaborate(m)
                    ev["name"] = m.name
                except Exception:
                    pass
        except Exception as ex:
            ev["raised"] = True
            ev["exc"] = f"{type(ex).__name__}: {str(ex)[:100]}"
        ev["nested"] = [list(x) for x in env["nested"]]
        ev["bodies"] = [list(x) for x in env["log"]]
        ev["mods"] = [[env["mods"][id(m)], m.name, env["modkind"].get(id(m), "fresh")] for m in env["order"]]
        events.append(ev)
    # final: all generated modules in one design
    ev = {"tid": tid, "seq": seq + 1, "op": "export", "g": "", "kind": "", "mayraise": False, "kinds": KINDS, "form": "", "key": "", "raised": False, "mod": 0, "name": "",
          "nested": [], "bodies": [], "mods": [], "npkg": 0, "nmods": len(env["order"])}
    try:
        top = h.Module(name="TopOfAll")
        for k, m in enumerate(env["order"]):
            top.add(m(), name=f"u{k}")
        pkg = h.to_proto(top)
        ev["npkg"] = len(pkg.modules) - 1
    except Exception as ex:
        ev["raised"] = True
        ev["exc"] = f"{type(ex).__name__}: {str(ex)[:100]}"
    events.append(ev)
    return events


# ---- richer parameter shapes (seeded) ----
STRS = ["x", "x b=y", "y b=z", "z", "None", "", "a=1", "x" * 119, "x" * 120, "x" * 121, "x" * 130, "é", "a b"]


def rich_step(rnd):
    g = rnd.choice(["GS", "GS", "GB", "GC", "GD", "GA", "GA", "GP", "GN", "GX", "GU", "GM", "GM", "GG", "GG", "GT", "GT", "GF", "GF", "GE", "GE", "GQ", "GQ", "GO", "GO", "GL", "GL"])
    form = rnd.choice(["kw", "inst"])
    if g == "GS":
        kw = {"a": rnd.choice(STRS)}
        if rnd.random() < 0.7:
            kw["b"] = rnd.choice(STRS)
    elif g == "GB":
        kw = {"f": rnd.choice([1, 1.0, "1.0", 0.1, 1e-3, "0.001", 2.5, -0.0, 0.0, 0.1 + 0.2, 0.3, 1 / 3, 0.3333333, 1.0000001, 1.0000002])}
        if rnd.random() < 0.5:
            kw["o"] = rnd.choice([None, 1, "1", 1.0, 2])
        if rnd.random() < 0.5:
            kw["e"] = rnd.choice(["RED", "BLUE"])
        if rnd.random() < 0.5:
            kw["t"] = rnd.choice([None, "None", "x", "t"])
    elif g == "GC":
        kw = {}
        if rnd.random() < 0.6:
            kw["n"] = rnd.choice([{"x": 1}, {"x": 1, "y": "q"}, {"x": 2}, {"x": "1"}, {"y": "r"}])
        if rnd.random() < 0.8:
            kw["p"] = rnd.choice([["1", 0], ["1000", -3], ["0.001", 3], ["1.0", 0], ["1", 3], ["1E+3", 0], ["2", 0], ["1000000", -6]])
        if rnd.random() < 0.6:
            kw["s"] = rnd.choice([1, 1.0, "1", "1.0", "1e0", ["1000", -3], "w/5", "w /5", 2])
    elif g == "GM":
        kw = {"n": rnd.choice([1, 1.0, 2, 2.0, 2.5, 0, 0.0, -0.0, 10 ** 20, 1e20])}
        if rnd.random() < 0.4:
            kw["v"] = tuple(rnd.choice([[1, 2.5], [1.0, 2.5], [1], [1.0], [0.0], [-0.0], [0]]))
        if rnd.random() < 0.4:
            kw["w"] = rnd.choice([[[0, 0], [1, 1.0]], [[0.0, 0], [1.0, 1]], [[0, 0], [1, 1]], [[1, 2.5]], [[1.0, 2.5]]])
    elif g == "GQ":
        kw = {"d": rnd.choice(["D1.0", "D1", 1, 1.0, "D1E+3", "D1000", 1000, "D0.5", "D0.50", 0.5, "D0.1", "D2"])}
    elif g == "GO":
        kw = rnd.choice([{"t": None}, {"t": 5}, {}, {"t": 7}, {"t": None, "k": 1}])
    elif g == "GL":
        kw = {"a": rnd.choice([0, 1, 2])}
    elif g == "GE":
        kw = {"c": rnd.choice([0, 1, 2, 3])}
    elif g == "GF":
        kw = {"f": rnd.choice([0.1 + 0.2, 0.3, 1 / 3, 0.3333333, 1.0000001, 1.0000002, 1.0, 1e-11, 1e22, 0.5, -0.0, 0.0])}
        if rnd.random() < 0.4:
            kw["t"] = rnd.choice([None, "x"])
    elif g == "GT":
        kw = {"a": rnd.choice([1, 2, 3, 4, 5, 9])}
    elif g == "GG":
        kw = {"g": rnd.choice([0, 1, 2])}
        if rnd.random() < 0.3:
            kw["k"] = rnd.choice([0, 1])
    elif g == "GX":
        kw = {"c": rnd.choice([1j, 2j, 1 + 1j]), "k": rnd.choice([0, 1])}
    elif g == "GU":
        kw = {"a": rnd.choice([1, 2])}
    elif g == "GD":
        kw = {"m": rnd.choice([0, 1, 2, 3])}
        if rnd.random() < 0.5:
            kw["k"] = rnd.choice([0, 1])
    else:
        kw = {"a": rnd.choice([1, 1.0, "1", 2, 0, True, -1, -2, -1, -2])}
        if g == "GA" and rnd.random() < 0.6:
            kw["b"] = rnd.choice(["x", "p", "n", "x b=y", "None"])
    return {"g": g, "form": form, "kw": kw}


def feats(hist, clause):
    import math
    f = set()
    try:
        k = int(clause.split("@")[1]) - 1
        v = (hist[k].get("kw") or {}).get("f")
        if isinstance(v, float) and v == 0.0:
            f.add("failing_call_has_zero_float")
    except Exception:
        pass
    for s in hist:
        f.add("gen_" + s["g"])
        for v in (s.get("kw") or {}).values():
            if isinstance(v, str) and (" " in v or "=" in v):
                f.add("str_with_separator")
    return sorted(f)


def run(tier, seed, replay_file=None):
    o = Outcome(PID, tier, seed)
    o.rule = ("call sequences: exhaustive (TLC, MC_GenCache: 4 generator kinds x 4 spellings x 2 call forms, length 3) + seeded sequences over "
              "8 generators with optional/enum/nested/Prefixed/Scalar/Module-valued/adversarial-string fields. Non-trivial = at least one cache "
              "hit or nested call; distinct by sequence.")
    o.trusted_base = ["harness/props/c09.py (driver; canonical parameter values = the independent statement of parameter equality)", "TLC"]
    hists = []
    if replay_file:
        hists = [json.loads(Path(replay_file).read_text())["case"]]
    else:
        cfg = "mc/MC_GenCache_q3.cfg" if tier == "quick" else "mc/MC_GenCache_q.cfg"
        r = tlc.must_ok(tlc.run("mc/MC_GenCache.tla", cfg, workers=1, tag="c09gen"), "MC_GenCache")
        o.add_mc("MC_GenCache", r, f"{cfg}: 4 generator kinds x spellings x 2 forms, MaxCalls=3")
        hists = list(r.cases)
        o.exhaustive = True
        if tier == "thorough":
            # (a simulated behaviour prints every candidate last call, ~30 histories per behaviour; a seeded sample of them is replayed)
            r = tlc.run("mc/MC_GenCache.tla", "mc/MC_GenCache_sim.cfg", workers=1, simulate="num=2500", depth=40, seed=seed + 7, tag="c09sim")
            if r.rc != 0:
                raise tlc.TlcError("simulate failed: " + r.out[-1500:])
            srnd = random.Random(seed + 11)
            hists += r.cases if len(r.cases) <= 40000 else srnd.sample(r.cases, 40000)
            o.transitions += r.generated
            o.mc_runs.append({"spec": "MC_GenCache(simulate)", "constants": "mc/MC_GenCache_sim.cfg", "behaviours": len(r.cases)})
            del r
        rnd = random.Random(seed)
        nrich = 4000 if tier == "quick" else 40000
        for _ in range(nrich):
            hists.append([rich_step(rnd) for _ in range(rnd.randint(2, 7))])
        rnd.shuffle(hists)
    # RUN in 8 chunks = the 8 validation batches (the cross-trace name registry needs traces of different workers/orders in ONE TLC process per
    # batch, so that every <<g,key>> meets its other occurrences); the projected traces are written out and dropped chunk by chunk
    work = WORK / "c09"
    work.mkdir(parents=True, exist_ok=True)
    files = []
    nb = min(8, max(1, len(hists)))
    per = (len(hists) + nb - 1) // nb
    ntr = 0
    nt = 0
    rnd = random.Random(seed)
    sample_ids = set(rnd.sample(range(len(hists)), min(3, len(hists))))
    kept = {}
    for b in range(nb):
        chunk = list(enumerate(hists))[b * per:(b + 1) * per]
        if not chunk:
            continue
        traces = pool_map(replay, chunk, chunksize=128)
        files += tlc.split_batches(traces, work, f"tr-{tier}-{b}", 1)
        ntr += len(traces)
        o.evaluations += sum(len(t) for t in traces)
        for t in traces:
            hit = any(ev["op"] == "call" and not ev["bodies"] for ev in t)
            nest = any(ev["nested"] for ev in t)
            nt += 1 if (hit or nest) else 0
            if t[0]["tid"] in sample_ids:
                kept[t[0]["tid"]] = t
            for ev in t:
                if ev["op"] == "call":
                    k = "hit" if not ev["bodies"] else "miss"
                    o.cover[k] = o.cover.get(k, 0) + 1
                    o.cover["kind_" + ev["kind"]] = o.cover.get("kind_" + ev["kind"], 0) + 1
                    o.cover["form_" + ev["form"]] = o.cover.get("form_" + ev["form"], 0) + 1
                    if ev["nested"]:
                        o.cover["nested_call"] = o.cover.get("nested_call", 0) + 1
                    if len(ev["name"]) > 0 and "=" not in ev["name"] and "(" in ev["name"]:
                        o.cover["hashed_name"] = o.cover.get("hashed_name", 0) + 1
                    elif "=" in ev["name"]:
                        o.cover["readable_name"] = o.cover.get("readable_name", 0) + 1
        del traces
    res = tlc.validate_batches("trace/Trace_GenCache.tla", "trace/Trace_GenCache.cfg", files, jobs=8, tag="c09val")
    verdicts = {}
    for r in res:
        o.transitions += r.generated
        for tid, ok, clause in r.verdicts:
            verdicts[tid] = (ok, clause)
    if len(verdicts) != ntr:
        raise tlc.TlcError(f"C09: {ntr} traces, {len(verdicts)} verdicts")
    o.traces = ntr
    o.distinct_nontrivial = nt
    o.required_cover = ["hit", "miss", "kind_fresh", "kind_nest", "kind_pass", "kind_rec", "form_kw", "form_inst", "nested_call", "hashed_name", "readable_name"]
    for i, t in sorted(kept.items()):
        o.samples.append({"history": hists[i], "events": [{k: ev[k] for k in ("g", "key", "mod", "name", "bodies", "nested", "raised")} for ev in t if ev["op"] == "call"],
                          "verdict": verdicts[i]})
    for i in sorted(verdicts):
        ok, clause = verdicts[i]
        if not ok:
            detail = replay((i, hists[i])) if len(o.violations) < 30 else None      # (re-run for the report; what TLC judged is the first run)
            o.violations.append(Violation(clause=clause, case=hists[i], features=feats(hists[i], clause), detail=detail))
    return o
