"""C17 - simulation input export is complete and faithful.

Abstract Sims (every attribute kind, nested sweep / Monte-Carlo to depth 3, every sweep kind, every SaveTarget form, numeric fields in
every Scalar spelling) are built procedurally, class-style (@sim) and through the add-methods, exported alone and in lists (sharing a
testbench or not), and the resulting SimInput is projected.  TLC (Trace_Sim over api/SimExport.tla) decides: top names the testbench,
present exactly once in the package; analyses / controls / options complete and in order; names, expressions, paths, sweep kinds kept;
every number is the double nearest the exact decimal; analysis names pairwise distinct; a bad testbench is rejected.
"""
import copy
import json
import math
import random
from decimal import Decimal, localcontext
from pathlib import Path

from .. import tlc
from ..common import Outcome, Violation, WORK, NPROC, pool_map

PID = "C17"
ZERO = {"neg": False, "d": [], "e": 0}


def dec(d: Decimal):
    t = d.as_tuple()
    return {"neg": bool(t.sign), "d": list(reversed(t.digits)), "e": t.exponent}


def F(x: float):
    return {"f": dec(Decimal(x)), "lo": dec(Decimal(math.nextafter(x, -math.inf))), "hi": dec(Decimal(math.nextafter(x, math.inf)))}


F0 = F(0.0)

# numeric spellings: (form, text[, prefix exponent]); the exact value "as written" is computed below
NUMS = [("int", "5"), ("int", "0"), ("int", "3"), ("float", "0.1"), ("float", "2.5"), ("float", "1e-09"), ("float", "1e22"), ("str", "1e-9"), ("str", "0.001"),
        ("str", "12.5"), ("decimal", "2.50"), ("decimal", "1E+3"), ("prefixed", "11", -12), ("prefixed", "1.5", -9), ("prefixed", "999", -24),
        ("prefixed", "0.3", 3), ("prefixed", "123456789012345678", -6), ("prefixed", "1", 9),
        # whole numbers at the smallest prefix, and beyond 2**53 at a sub-unit prefix: where a short-cut through float arithmetic rounds twice
        ("prefixed", "1", -24), ("prefixed", "7", -24), ("prefixed", "45", -24), ("prefixed", "9007199254740995", -15), ("prefixed", "5", 24)]


def exact(num):
    with localcontext() as ctx:
        ctx.prec = 200
        if num[0] == "prefixed":
            return Decimal(num[1]).scaleb(num[2])
        if num[0] == "float":
            return Decimal(repr(float(num[1])))
        return Decimal(num[1])


def pyval(h, num):
    from hdl21.prefix import Prefixed, Prefix
    if num[0] == "int":
        return int(num[1])
    if num[0] == "float":
        return float(num[1])
    if num[0] == "str":
        return num[1]
    if num[0] == "decimal":
        return Decimal(num[1])
    return Prefixed(number=Decimal(num[1]), prefix=Prefix.from_exp(num[2]))


SW0 = {"k": "none", "start": ZERO, "stop": ZERO, "step": ZERO, "npts": 0, "points": [], "py": None}


def attr(k, **kw):
    a = {"k": k, "name": "", "hasname": False, "var": "", "sweep": SW0, "inner": [], "x1": ZERO, "hasx2": False, "x2": ZERO, "n": 0,
         "text": "", "text2": "", "form": "", "py": {}}
    a.update(kw)
    return a


def rand_num(rnd):
    return rnd.choice(NUMS)


def rand_sweep(rnd, kinds=("linear", "log", "points")):
    k = rnd.choice(kinds)
    if k == "linear":
        a, b, c = rand_num(rnd), rand_num(rnd), rand_num(rnd)
        return {"k": k, "start": dec(exact(a)), "stop": dec(exact(b)), "step": dec(exact(c)), "npts": 0, "points": [], "py": [a, b, c]}
    if k == "log":
        a, b = rand_num(rnd), rand_num(rnd)
        n = rnd.randint(1, 50)
        return {"k": k, "start": dec(exact(a)), "stop": dec(exact(b)), "step": ZERO, "npts": n, "points": [], "py": [a, b, n]}
    pts = [rand_num(rnd) for _ in range(rnd.randint(1, 3))]
    return {"k": k, "start": ZERO, "stop": ZERO, "step": ZERO, "npts": 0, "points": [dec(exact(p)) for p in pts], "py": pts}


def rand_analysis(rnd, depth, names):
    kinds = ["op", "dc", "ac", "tran", "custom", "noise"] + (["sweep", "monte"] if depth > 0 else [])
    k = rnd.choice(kinds)
    a = attr(k)
    if rnd.random() < 0.6:
        nm = rnd.choice(["a1", "a2", "mytran", "Analysis0", "Analysis1", "x"]) + str(len(names))
        if rnd.random() < 0.15:
            nm = rnd.choice(["Analysis0", "Analysis1", "Analysis2"])
        if nm not in names:
            names.append(nm)
            a["name"], a["hasname"] = nm, True
    if k == "dc":
        a["var"] = rnd.choice(["vdd", "temp", "p1"])
        a["sweep"] = rand_sweep(rnd)
    elif k == "ac":
        a["sweep"] = rand_sweep(rnd, ("log",))
    elif k == "tran":
        n1 = rand_num(rnd)
        a["x1"] = dec(exact(n1))
        a["py"]["x1"] = n1
        if rnd.random() < 0.6:
            n2 = rand_num(rnd)
            a["hasx2"], a["x2"] = True, dec(exact(n2))
            a["py"]["x2"] = n2
    elif k == "noise":
        a["text"], a["text2"] = rnd.choice(["out", "vout"]), rnd.choice(["vin", "v1"])
        a["sweep"] = rand_sweep(rnd, ("log",))
    elif k == "custom":
        a["text"] = rnd.choice([".pz v(1) v(2)", "tf v(out) vin", ""])
    elif k == "sweep":
        a["var"] = rnd.choice(["vdd", "temp"])
        a["sweep"] = rand_sweep(rnd)
        a["inner"] = [rand_analysis(rnd, depth - 1, names) for _ in range(rnd.randint(1, 2))]
    elif k == "monte":
        a["n"] = rnd.randint(1, 100)
        a["inner"] = [rand_analysis(rnd, depth - 1, names) for _ in range(rnd.randint(1, 2))]
    return a


def rand_control(rnd, pnames):
    k = rnd.choice(["save", "save", "meas", "include", "lib", "param", "literal"])
    a = attr(k)
    if k == "save":
        form = rnd.choice(["all", "none", "signal", "signals", "name", "names"])
        a["form"] = form
        a["text"] = {"all": "", "none": "", "signal": "sa", "signals": "sa,sb", "name": "xtop.out", "names": "n1,n2,n3"}[form]
    elif k == "meas":
        a["name"], a["hasname"] = "m" + str(len(pnames)), True
        pnames.append(a["name"])
        a["text"] = rnd.choice(["trig v(x) val=0.5 rise=1 targ v(y) val=0.5 rise=1", "max v(out)"])
        a["text2"] = rnd.choice(["tran", "dc", "ac"])
    elif k == "include":
        a["text"] = rnd.choice(["/models/all.sp", "rel/inc.scs", "/with space/x.sp", "models/../corners/tt.sp", "../up/inc.scs"])
    elif k == "lib":
        a["text"], a["text2"] = rnd.choice(["/pdk/lib.sp", "l.lib", "/pdk/models/../corners/all.lib", "../../l.lib"]), rnd.choice(["tt", "ff_hot"])
    elif k == "param":
        a["name"], a["hasname"] = "p" + str(len(pnames)), True
        pnames.append(a["name"])
        n1 = rand_num(rnd)
        a["x1"] = dec(exact(n1))
        a["py"]["x1"] = n1
    elif k == "literal":
        a["text"] = rnd.choice([".option post", "* a comment", "simulator lang=spice"])
    return a


def rand_option(rnd, k):
    a = attr("options", name=f"opt{k}", hasname=True)
    if rnd.random() < 0.6:
        n1 = rand_num(rnd)
        a["form"], a["x1"] = "number", dec(exact(n1))
        a["py"]["x1"] = n1
    else:
        a["form"], a["text"] = "text", rnd.choice(["gear", "trap", "a b"])
        a["py"]["lit"] = rnd.random() < 0.5
    return a


def rand_sim(rnd, depth, k):
    names, pnames = [], []
    attrs = []
    for _ in range(rnd.randint(1, 7)):
        r = rnd.random()
        if r < 0.45:
            attrs.append(rand_analysis(rnd, depth, names))
        elif r < 0.85:
            attrs.append(rand_control(rnd, pnames))
        else:
            attrs.append(rand_option(rnd, len(attrs)))
    # the same (unnamed) analysis object used at the top level AND inside a later sweep / Monte-Carlo
    for j, a in enumerate(list(attrs)):
        if a["k"] in ("sweep", "monte") and rnd.random() < 0.5:
            earlier = [x for x in attrs[:j] if x["k"] in ("op", "tran", "custom") and not x["hasname"]]
            if earlier:
                src = earlier[0]
                ref = dict(src)
                ref["same_object_as"] = attrs.index(src)
                a["inner"] = a["inner"] + [ref]
    tbk = rnd.choice(["ok", "ok", "ok", "ok", "ok", "noport", "twoports", "busport", "bundleport"])
    return {"tbname": f"tb{k}", "tb_ok": tbk == "ok", "tbkind": tbk, "attrs": attrs, "style": rnd.choice(["proc", "class", "methods"])}


# ------------------------------------------------------------------------------------------------ building
def mk_sweep(h, hs, sw):
    if sw["k"] == "linear":
        a, b, c = sw["py"]
        return hs.LinearSweep(start=pyval(h, a), stop=pyval(h, b), step=pyval(h, c))
    if sw["k"] == "log":
        a, b, n = sw["py"]
        return hs.LogSweep(start=pyval(h, a), stop=pyval(h, b), npts=n)
    return hs.PointSweep(points=[pyval(h, p) for p in sw["py"]])


def mk_attr_kwargs(h, hs, a, sigs):
    """(class, kwargs) for one attribute"""
    k = a["k"]
    nm = {"name": a["name"]} if a["hasname"] else {}
    if k == "op":
        return hs.Op, nm
    def var_of(a):
        # the swept parameter given as the Param OBJECT declared earlier in the same Sim (as the `sim` docstring shows), or by name
        j = a.get("var_obj")
        return sigs["_built"][j] if j is not None and j in sigs.get("_built", {}) else a["var"]
    if k == "dc":
        return hs.Dc, dict(var=var_of(a), sweep=mk_sweep(h, hs, a["sweep"]), **nm)
    if k == "ac":
        return hs.Ac, dict(sweep=mk_sweep(h, hs, a["sweep"]), **nm)
    if k == "tran":
        kw = dict(tstop=pyval(h, a["py"]["x1"]), **nm)
        if a["hasx2"]:
            kw["tstep"] = pyval(h, a["py"]["x2"])
        return hs.Tran, kw
    if k == "noise":
        return hs.Noise, dict(output=a["text"], input_source=a["text2"], sweep=mk_sweep(h, hs, a["sweep"]), **nm)
    if k == "custom":
        return hs.CustomAnalysis, dict(cmd=a["text"], **nm)
    if k == "sweep":
        return hs.SweepAnalysis, dict(inner=[mk_attr(h, hs, x, sigs) for x in a["inner"]], var=var_of(a), sweep=mk_sweep(h, hs, a["sweep"]), **nm)
    if k == "monte":
        return hs.MonteCarlo, dict(inner=[mk_attr(h, hs, x, sigs) for x in a["inner"]], npts=a["n"], **nm)
    if k == "save":
        f = a["form"]
        targ = {"all": hs.SaveMode.ALL, "none": hs.SaveMode.NONE, "signal": sigs["sa"], "signals": [sigs["sa"], sigs["sb"]], "name": "xtop.out",
                "names": ["n1", "n2", "n3"]}[f]
        return hs.Save, dict(targ=targ)
    if k == "meas":
        return hs.Meas, dict(analysis=a["text2"], expr=a["text"], name=a["name"])
    if k == "include":
        return hs.Include, dict(path=a["text"])
    if k == "lib":
        return hs.Lib, dict(path=a["text"], section=a["text2"])
    if k == "param":
        return hs.Param, dict(val=pyval(h, a["py"]["x1"]), name=a["name"])
    if k == "literal":
        return h.Literal, dict(text=a["text"])
    if k == "options":
        if a["form"] == "number":
            return hs.Options, dict(value=pyval(h, a["py"]["x1"]), name=a["name"])
        return hs.Options, dict(value=h.Literal(a["text"]) if a["py"].get("lit") else a["text"], name=a["name"])
    raise ValueError(k)


def mk_attr(h, hs, a, sigs):
    if "same_object_as" in a and a["same_object_as"] in sigs.get("_built", {}):
        return sigs["_built"][a["same_object_as"]]
    cls, kw = mk_attr_kwargs(h, hs, a, sigs)
    return cls(**kw)


def build_sim(h, hs, S, shared_tb=None):
    sigs = {}
    if shared_tb is not None:
        tb = shared_tb
    else:
        tb = h.Module(name=S["tbname"])
        if S["tbkind"] in ("ok", "twoports", "bundleport"):
            tb.VSS = h.Port()
        if S["tbkind"] == "bundleport":
            tb.inp = h.Diff(port=True)          # one scalar port until elaboration flattens the bundle into two more
        if S["tbkind"] == "twoports":
            tb.EXTRA = h.Port()
        if S["tbkind"] == "busport":
            tb.VSS = h.Port(width=2)
        tb.sa = h.Signal()
        tb.sb = h.Signal()
    sigs["sa"], sigs["sb"] = tb.get("sa"), tb.get("sb")
    sigs["_built"] = {}
    if S["style"] == "proc":
        built = []
        for j, a in enumerate(S["attrs"]):
            obj = mk_attr(h, hs, a, sigs)
            sigs["_built"][j] = obj
            built.append(obj)
        return hs.Sim(tb=tb, attrs=built)
    if S["style"] == "methods":
        sim = hs.Sim(tb=tb)
        meth = {"op": "op", "dc": "dc", "ac": "ac", "tran": "tran", "noise": "noise", "custom": "customanalysis", "sweep": "sweepanalysis", "monte": "montecarlo",
                "save": "save", "meas": "meas", "include": "include", "lib": "lib", "param": "param", "literal": "literal", "options": "options"}
        for j, a in enumerate(S["attrs"]):
            cls, kw = mk_attr_kwargs(h, hs, a, sigs)
            sigs["_built"][j] = getattr(sim, meth[a["k"]])(**kw)
        return sim
    # class style: the class-body key becomes the attribute's name
    body = {"tb": tb}
    for j, a in enumerate(S["attrs"]):
        key = a["name"] if a["hasname"] else "_"
        if key == "_" and "_" in body:
            key = f"anon{j}"
        if "same_object_as" in a and a["same_object_as"] in sigs["_built"]:
            obj = sigs["_built"][a["same_object_as"]]
        else:
            cls, kw = mk_attr_kwargs(h, hs, a, sigs)
            if a["k"] != "options":
                kw.pop("name", None)        # written as in a class body - `mytran = Tran(tstop=1)` - the key gives the name
            obj = cls(**kw)
        body[key] = sigs["_built"][j] = obj
    return hs.sim(type("Sim" + S["tbname"], (), body))


# ------------------------------------------------------------------------------------------------ projection
def proj_sweep(sw):
    w = sw.WhichOneof("tp")
    o = {"k": w or "none", "start": F0, "stop": F0, "step": F0, "npts": 0, "points": []}
    if w == "linear":
        o.update(start=F(sw.linear.start), stop=F(sw.linear.stop), step=F(sw.linear.step))
    elif w == "log":
        o.update(start=F(sw.log.start), stop=F(sw.log.stop), npts=int(round(sw.log.npts)))
    elif w == "points":
        o.update(points=[F(x) for x in sw.points.points])
    return o


def proj_an(an):
    w = an.WhichOneof("an")
    o = {"k": w, "name": "", "var": "", "sweep": {"k": "none", "start": F0, "stop": F0, "step": F0, "npts": 0, "points": []}, "inner": [], "x1": F0, "x2": F0,
         "n": 0, "text": "", "text2": ""}
    x = getattr(an, w)
    o["name"] = x.analysis_name
    if w == "dc":
        o.update(var=x.indep_name, sweep=proj_sweep(x.sweep))
    elif w == "ac":
        o["sweep"] = {"k": "log", "start": F(x.fstart), "stop": F(x.fstop), "step": F0, "npts": int(x.npts), "points": []}
    elif w == "tran":
        o.update(x1=F(x.tstop), x2=F(x.tstep))
    elif w == "noise":
        o.update(text=x.output_p, text2=x.input_source)
        o["sweep"] = {"k": "log", "start": F(x.fstart), "stop": F(x.fstop), "step": F0, "npts": int(x.npts), "points": []}
    elif w == "sweep":
        o.update(var=x.variable, sweep=proj_sweep(x.sweep), inner=[proj_an(a) for a in x.an])
    elif w == "monte":
        o.update(n=int(x.npts), inner=[proj_an(a) for a in x.an])
    elif w == "custom":
        o["text"] = x.cmd
    return o


def pv_number(pv):
    """exact decimal of a vlsir ParamValue that holds a number, else None"""
    import vlsir
    w = pv.WhichOneof("value")
    with localcontext() as ctx:
        ctx.prec = 200
        if w == "prefixed":
            px = pv.prefixed
            exps = {"YOCTO": -24, "ZEPTO": -21, "ATTO": -18, "FEMTO": -15, "PICO": -12, "NANO": -9, "MICRO": -6, "MILLI": -3, "CENTI": -2, "DECI": -1, "UNIT": 0,
                    "DECA": 1, "HECTO": 2, "KILO": 3, "MEGA": 6, "GIGA": 9, "TERA": 12, "PETA": 15, "EXA": 18, "ZETTA": 21, "YOTTA": 24}
            e = exps[vlsir.SIPrefix.Name(px.prefix)]
            nw = px.WhichOneof("number")
            m = Decimal(px.int64_value) if nw == "int64_value" else Decimal(px.string_value)
            return m.scaleb(e)
        if w == "int64_value":
            return Decimal(pv.int64_value)
        if w == "double_value":
            return Decimal(pv.double_value)
    return None


def proj_ctrl(c):
    w = c.WhichOneof("ctrl")
    o = {"k": w, "name": "", "text": "", "text2": "", "form": "", "val": ZERO}
    x = getattr(c, w)
    if w == "include":
        o["text"] = x.path
    elif w == "lib":
        o.update(text=x.path, text2=x.section)
    elif w == "save":
        sw = x.WhichOneof("save")
        if sw == "mode":
            o["form"] = {0: "none", 1: "all"}.get(int(x.mode), str(x.mode))
            import vlsir.spice_pb2 as vsp
            o["form"] = "all" if x.mode == vsp.Save.SaveMode.ALL else "none"
        else:
            o.update(form="signal", text=x.signal)
    elif w == "meas":
        o.update(name=x.name, text=x.expr, text2=x.analysis_type)
    elif w == "param":
        n = pv_number(x.value)
        o.update(name=x.name, val=dec(n) if n is not None else ZERO, form="number" if n is not None else "text")
    elif w == "literal":
        o["text"] = x
    return o


def proj_opt(op):
    n = pv_number(op.value)
    o = {"name": op.name, "form": "number" if n is not None else "text", "val": dec(n) if n is not None else ZERO, "text": ""}
    if n is None:
        w = op.value.WhichOneof("value")
        o["text"] = getattr(op.value, w) if w else ""
    return o


def proj_siminput(si):
    return {"top": si.top, "pkgmods": [m.name.split(".")[-1] for m in si.pkg.modules], "an": [proj_an(a) for a in si.an],
            "ctrls": [proj_ctrl(c) for c in si.ctrls], "opts": [proj_opt(x) for x in si.opts]}


EMPTY_OUT = {"top": "", "pkgmods": [], "an": [], "ctrls": [], "opts": []}


def run_group(args):
    """a group = one Sim alone, or a list of Sims exported together (sharing one testbench or not)"""
    gid, group = args
    from ..hd import h
    import hdl21.sim as hs
    events = []
    try:
        sims = []
        shared = None
        for S in group["sims"]:
            s = build_sim(h, hs, S, shared_tb=shared if group["share_tb"] else None)
            if group["share_tb"] and shared is None:
                shared = s.tb
            sims.append(s)
        outs = hs.to_proto(sims if len(sims) > 1 or group["as_list"] else sims[0])
        if not isinstance(outs, list):
            outs = [outs]
        for S, si in zip(group["sims"], outs):
            out = proj_siminput(si)
            out["top"] = out["top"].split(".")[-1]
            S2 = strip(S, group)
            if group.get("name_clash"):
                S2["tb_ok"] = False        # two different testbench modules of one name: a list the exporter has to refuse
            events.append({"sim": S2, "raised": False, "out": out, "exc": ""})
    except Exception as ex:
        exc = f"{type(ex).__name__}: {str(ex).strip().splitlines()[-1][:200] if str(ex).strip() else ''}"
        # the whole group was refused: every member is judged by whether the group contains a bad testbench
        anybad = any(not S["tb_ok"] for S in group["sims"]) or bool(group.get("name_clash"))
        for S in group["sims"]:
            S2 = strip(S, group)
            S2["tb_ok"] = not anybad
            events.append({"sim": S2, "raised": True, "out": EMPTY_OUT, "exc": exc})
    return events


def strip(S, group):
    def clean(a):
        b = {k: v for k, v in a.items() if k not in ("py", "same_object_as")}
        b["reused"] = "same_object_as" in a
        b["sweep"] = {k: v for k, v in a["sweep"].items() if k != "py"}
        b["inner"] = [clean(x) for x in a["inner"]]
        return b
    tbname = group["sims"][0]["tbname"] if group["share_tb"] else S["tbname"]
    tb_ok = group["sims"][0]["tb_ok"] if group["share_tb"] else S["tb_ok"]
    return {"tbname": tbname, "tb_ok": tb_ok, "attrs": [clean(a) for a in S["attrs"]]}


def class_style_adjust(S):
    """in a class-defined Sim the class-body key IS the attribute's name; unnamed ones use '_' (at most one) or get their key as name"""
    used = False
    for j, a in enumerate(S["attrs"]):
        if not a["hasname"]:
            if not used:
                used = True          # this one sits under the key "_" (whatever its kind: a Save or Include takes the key just the same)
            elif a["k"] not in ("save", "include", "lib", "literal"):
                a["name"], a["hasname"] = f"anon{j}", True
    # an inner analysis that IS one of the top-level objects carries that object's (key-given) name
    def fix(lst):
        for x in lst:
            j = x.get("same_object_as")
            if j is not None and S["attrs"][j]["k"] not in ("save", "include", "lib", "literal"):
                x["name"], x["hasname"] = S["attrs"][j]["name"], S["attrs"][j]["hasname"]
            fix(x.get("inner", []))
    for a in S["attrs"]:
        fix(a.get("inner", []))
    return S


def gen_groups(tier, seed):
    rnd = random.Random(seed)
    groups = []
    n = 500 if tier == "quick" else 5000
    depth = 2 if tier == "quick" else 3
    k = 0
    for g in range(n):
        r = rnd.random()
        if r < 0.7:
            sims = [rand_sim(rnd, depth, k)]
            share, aslist = False, rnd.random() < 0.2
        else:
            m = rnd.randint(2, 3)
            sims = [rand_sim(rnd, depth, k + j) for j in range(m)]
            share, aslist = rnd.random() < 0.5, True
            if share:
                for s in sims:
                    s["tbkind"], s["tb_ok"] = sims[0]["tbkind"], sims[0]["tb_ok"]
        k += len(sims)
        for s in sims:
            if s["style"] == "class":
                # Options / Param / Meas names are their keys; keys must be unique and identifiers
                seen = set()
                for a in s["attrs"]:
                    if a["hasname"] and (a["name"] in seen or not a["name"].isidentifier()):
                        s["style"] = "proc"
                    if a["hasname"]:
                        seen.add(a["name"])
                if s["style"] == "class":
                    class_style_adjust(s)
        groups.append({"sims": sims, "share_tb": share, "as_list": aslist})
    # systematic: one unnamed analysis object used at the top level and inside later sweep / Monte-Carlo analyses
    for j in range(12):
        first = attr(["op", "tran", "custom"][j % 3])
        if first["k"] == "tran":
            first["x1"], first["py"] = dec(exact(NUMS[j % len(NUMS)])), {"x1": NUMS[j % len(NUMS)]}
        ref = dict(first)
        ref["same_object_as"] = 0
        sw = attr("sweep", var="vdd", sweep=rand_sweep(rnd), inner=[ref] + ([attr("op")] if j % 2 else []))
        mc = attr("monte", n=3 + j, inner=[attr("op"), dict(ref)])
        S = {"tbname": f"tbr{j}", "tb_ok": True, "tbkind": "ok", "attrs": [first, sw, attr("op"), mc][: 3 + (j % 2)], "style": ["proc", "methods"][j % 2]}
        groups.append({"sims": [S], "share_tb": False, "as_list": False})
    # systematic: a Sim whose later attributes refer to earlier ones AS OBJECTS (the swept Param, the inner analysis), in every style
    for j in range(9):
        n1 = NUMS[j % len(NUMS)]
        par = attr("param", name="x", hasname=True)
        par["x1"], par["py"] = dec(exact(n1)), {"x1": n1}
        tr = attr("tran", name="mytran", hasname=True)
        tr["x1"], tr["py"] = dec(exact(NUMS[(j + 3) % len(NUMS)])), {"x1": NUMS[(j + 3) % len(NUMS)]}
        ref = dict(tr)
        ref["same_object_as"] = 1
        dc = attr("dc", name="mydc", hasname=True, var="x", sweep=rand_sweep(rnd))
        dc["var_obj"] = 0
        sw = attr("sweep", name="mysweep", hasname=True, var="x", sweep=rand_sweep(rnd), inner=[dict(ref)])
        sw["var_obj"] = 0
        mc = attr("monte", name="mymc", hasname=True, n=4 + j, inner=[dict(ref), attr("op", name="innerop", hasname=True)])
        S = {"tbname": f"tbo{j}", "tb_ok": True, "tbkind": "ok", "attrs": [par, tr, dc, sw, mc], "style": ["class", "proc", "methods"][j % 3]}
        groups.append({"sims": [S], "share_tb": False, "as_list": False})
    # systematic: analyses nested as OBJECTS two and three deep (a sweep inside a Monte-Carlo inside a sweep), each also a top-level attribute with a name
    for j in range(9):
        tr = attr("tran", name="mytran", hasname=True)
        tr["x1"], tr["py"] = dec(exact(NUMS[j % len(NUMS)])), {"x1": NUMS[j % len(NUMS)]}
        rtr = dict(tr)
        rtr["same_object_as"] = 0
        sw = attr("sweep", name="mysweep", hasname=True, var="vdd", sweep=rand_sweep(rnd), inner=[rtr])
        rsw = copy.deepcopy(sw)
        rsw["same_object_as"] = 1
        mc = attr("monte", name="mymc", hasname=True, n=2 + j, inner=[rsw, attr("op", name="innerop", hasname=True)])
        rmc = copy.deepcopy(mc)
        rmc["same_object_as"] = 2
        outer = attr("sweep", name="outer", hasname=True, var="temp", sweep=rand_sweep(rnd), inner=[rmc])
        S = {"tbname": f"tbn{j}", "tb_ok": True, "tbkind": "ok", "attrs": [tr, sw, mc, outer], "style": ["class", "proc", "methods"][j % 3]}
        groups.append({"sims": [S], "share_tb": False, "as_list": False})
    # systematic: a list of Sims whose testbenches are DIFFERENT modules of one name: they cannot both be in the package under that name
    for j in range(4):
        sims = [rand_sim(rnd, 1, 9000 + 2 * j), rand_sim(rnd, 1, 9001 + 2 * j)]
        for s_ in sims:
            s_["tbname"], s_["tbkind"], s_["tb_ok"], s_["style"] = f"tbclash{j}", "ok", True, "proc"
        groups.append({"sims": sims, "share_tb": False, "as_list": True, "name_clash": True})
    return groups


def feats(S):
    f = set()

    def walk(a, d):
        f.add("attr_" + a["k"])
        if a["k"] == "save":
            f.add("save_" + a["form"])
        if a["sweep"]["k"] != "none":
            f.add("sweep_" + a["sweep"]["k"])
        if d >= 2:
            f.add("nested_depth_%d" % d)
        if a["k"] in ("op", "dc", "ac", "tran", "noise", "sweep", "monte", "custom") and not a["hasname"]:
            f.add("unnamed_analysis")
        if a.get("reused"):
            f.add("analysis_object_reused")
        if a["hasname"] and a["name"].startswith("Analysis") and a["name"][8:].isdigit():
            f.add("user_name_like_generated")
        for x in a["inner"]:
            walk(x, d + 1)
    for a in S["attrs"]:
        walk(a, 1)
    return f


def run(tier, seed, replay_file=None):
    o = Outcome(PID, tier, seed)
    o.rule = ("seeded random Sims: 1-7 attributes of every kind, nested sweep / Monte-Carlo analyses to depth 2 (quick) / 3, every sweep kind and SaveTarget "
              "form, numbers in 18 Scalar spellings, three construction styles, alone / in lists sharing or not sharing the testbench, one in seven with a "
              "testbench violating the interface; non-trivial = at least one analysis; distinct by content.")
    o.trusted_base = ["harness/props/c17.py (builder, SimInput projection, Decimal(float) and math.nextafter, exact value of a spelling)", "TLC", "lib/BigNum.tla"]
    if replay_file:
        groups = [json.loads(Path(replay_file).read_text())["case"]["group"]]
    else:
        groups = gen_groups(tier, seed)
    outs = pool_map(run_group, list(enumerate(groups)), chunksize=8)
    evs, owner = [], []
    for gi, es in enumerate(outs):
        for e in es:
            e["tid"] = len(evs)
            evs.append(e)
            owner.append(gi)
    files = tlc.split_batches([[e] for e in evs], WORK / "c17", f"tr-{tier}", NPROC)
    res = tlc.validate_batches("trace/Trace_Sim.tla", "trace/Trace_Sim.cfg", files, jobs=NPROC, tag="c17val")
    verdicts = {}
    for r in res:
        o.transitions += r.generated
        o.states += r.distinct
        for tid, ok, clause in r.verdicts:
            verdicts[tid] = (ok, clause)
    if len(verdicts) != len(evs):
        raise tlc.TlcError(f"C17: {len(evs)} sims, {len(verdicts)} verdicts")
    o.traces = o.evaluations = len(evs)
    nt = 0
    for i, e in enumerate(evs):
        g = groups[owner[i]]
        fs = feats(e["sim"])
        for x in fs:
            o.cover[x] = o.cover.get(x, 0) + 1
        o.cover["group_list" if len(g["sims"]) > 1 else "group_single"] = o.cover.get("group_list" if len(g["sims"]) > 1 else "group_single", 0) + 1
        if g["share_tb"]:
            o.cover["shared_testbench"] = o.cover.get("shared_testbench", 0) + 1
        for s in g["sims"]:
            o.cover["style_" + s["style"]] = o.cover.get("style_" + s["style"], 0) + 1
        if not e["sim"]["tb_ok"]:
            o.cover["bad_testbench"] = o.cover.get("bad_testbench", 0) + 1
        for s in g["sims"]:
            o.cover["tb_" + s["tbkind"]] = o.cover.get("tb_" + s["tbkind"], 0) + 1
        if any(x.startswith("attr_") and x[5:] in ("op", "dc", "ac", "tran", "noise", "sweep", "monte", "custom") for x in fs):
            nt += 1
        ok, clause = verdicts[i]
        if not ok:
            o.violations.append(Violation(clause=clause.split(":")[0], case={"group": g, "member": e["sim"]["tbname"]}, features=sorted(fs),
                                          detail={"clause": clause, "exc": e["exc"], "out": e["out"]} if len(o.violations) < 15 else clause))
    o.distinct_nontrivial = nt
    o.required_cover = ["attr_" + k for k in ("op", "dc", "ac", "tran", "noise", "sweep", "monte", "custom", "save", "meas", "include", "lib", "param", "literal", "options")] + \
                       ["save_" + k for k in ("all", "none", "signal", "signals", "name", "names")] + ["sweep_linear", "sweep_log", "sweep_points", "nested_depth_2",
                        "unnamed_analysis", "group_list", "shared_testbench", "style_proc", "style_class", "style_methods", "bad_testbench", "analysis_object_reused", "tb_bundleport"]
    rnd = random.Random(seed)
    for i in rnd.sample(range(len(evs)), 2):
        o.samples.append({"sim": {"tbname": evs[i]["sim"]["tbname"], "attrs": [{k: a[k] for k in ("k", "name", "hasname", "text", "form")} for a in evs[i]["sim"]["attrs"]]},
                          "exported_analysis_names": [a["name"] for a in evs[i]["out"]["an"]], "verdict": verdicts[i]})
    return o
