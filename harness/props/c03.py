"""C03 - indexing and concatenation follow Python sequence semantics.

Cases are index / slice / concat expressions over the five sliceable kinds.  Each is built with the real
library, connected to a sink port and exported; what is logged is whether anything raised, the reported
width and the bit sequence named by the exported connection.  TLC (Trace_Slice over SliceSem/PySeq)
computes the classification and the expected bits.  Python's own slicing is never used as an oracle.
"""
import itertools
import json
import random
from pathlib import Path

from .. import tlc
from ..common import Outcome, Violation, WORK, NPROC, pool_map

PID = "C03"


# ------------------------------------------------------------------ abstract cases
def I(i):
    return {"k": "int", "i": i, "hs": False, "s": 0, "he": False, "e": 0, "ht": False, "t": 0}


def R(s, e, t):
    return {"k": "range", "i": 0, "hs": s is not None, "s": s or 0, "he": e is not None, "e": e or 0,
            "ht": t is not None, "t": t or 0}


def leaf(kind, n, w):
    return {"k": kind, "n": n, "w": w}


def parent_of(kind, w):
    if kind in ("sig", "pref", "bref"):
        return leaf(kind, {"sig": "s0", "pref": "i0", "bref": "b0"}[kind], w)
    if kind == "slice":
        return {"k": "slice", "of": leaf("sig", "s0", w + 2), "idx": R(1, w + 1, None)}
    if kind == "cat":
        w1 = (w + 1) // 2
        parts = [leaf("sig", "s0", w1)] + ([leaf("sig", "s1", w - w1)] if w - w1 else [])
        return {"k": "cat", "parts": parts}
    raise ValueError(kind)


def all_indices(w, W, steps=None):
    bnd = list(range(-2 * W, 2 * W + 1))
    for i in bnd:
        yield I(i)
    st = steps if steps is not None else [None] + [t for t in range(-W, W + 1) if t != 0]
    for s in [None] + bnd:
        for e in [None] + bnd:
            for t in st:
                yield R(s, e, t)


def small_indices(w):
    bnd = [None] + list(range(-w - 1, w + 2))
    for i in range(-w - 1, w + 1):
        yield I(i)
    for s in bnd:
        for e in bnd:
            for t in (None, 1, -1, 2, -2):
                yield R(s, e, t)


def rand_index(rnd, w):
    if rnd.random() < 0.3:
        return I(rnd.randint(-w - 1, w))
    b = lambda: None if rnd.random() < 0.25 else rnd.randint(-w - 2, w + 2)
    t = rnd.choice([None, None, 1, 1, -1, 2, -2, 3, -3])
    return R(b(), b(), t)


def rand_expr(rnd, depth, ctr, maxw=5):
    """Random nested expression; ctr numbers leaves so every leaf signal has its own name."""
    if depth == 0 or rnd.random() < 0.15:
        kind = rnd.choice(["sig", "sig", "pref", "bref"])
        k = ctr[kind] = ctr.get(kind, -1) + 1
        return leaf(kind, {"sig": "s", "pref": "i", "bref": "b"}[kind] + str(k), rnd.randint(1, maxw))
    if rnd.random() < 0.35:
        return {"k": "cat", "parts": [rand_expr(rnd, depth - 1, ctr, 3) for _ in range(rnd.randint(1, 3))]}
    of = rand_expr(rnd, depth - 1, ctr, maxw)
    return {"k": "slice", "of": of, "idx": rand_index(rnd, approx_width(of))}


def approx_width(x):
    # only used to aim random indices at interesting values; never an oracle
    if x["k"] in ("sig", "pref", "bref"):
        return x["w"]
    if x["k"] == "cat":
        return sum(approx_width(p) for p in x["parts"])
    return max(1, approx_width(x["of"]) // 2)


def leaves(x):
    if x["k"] in ("sig", "pref", "bref"):
        return [x]
    if x["k"] == "cat":
        return [l for p in x["parts"] for l in leaves(p)]
    return leaves(x["of"])


# ------------------------------------------------------------------ driver
def py_index(idx):
    if idx["k"] == "int":
        return idx["i"]
    return slice(idx["s"] if idx["hs"] else None, idx["e"] if idx["he"] else None, idx["t"] if idx["ht"] else None)


_mods = {}


def _child(h, kind, w):
    key = (kind, w)
    if key not in _mods:
        if kind == "bund":
            b = h.Bundle(name=f"Bund{w}")
            b.x = h.Signal(width=w)
            _mods[key] = b
        else:
            m = h.Module(name=f"{kind}{w}")
            m.p = h.Port(width=w)
            _mods[key] = m
    return _mods[key]


def build(h, m, x):
    k = x["k"]
    if k == "sig":
        return m.add(h.Signal(name=x["n"], width=x["w"]))
    if k == "pref":
        inst = m.add(_child(h, "Src", x["w"])(), name=x["n"])
        return inst.p
    if k == "bref":
        bi = m.add(_child(h, "bund", x["w"])(), name=x["n"])
        return bi.x
    if k == "slice":
        parent = build(h, m, x["of"])
        for pi in x.get("pre", []):
            # earlier slices taken of the SAME parent object (results dropped): what a slice selects may not depend on them
            try:
                parent[py_index(pi)]
            except Exception:
                pass
        return parent[py_index(x["idx"])]
    if k == "cat":
        return h.Concat(*[build(h, m, p) for p in x["parts"]])
    raise ValueError(k)


def read_bits(pmod, target):
    widths = {s.name: s.width for s in pmod.signals}
    st = target.WhichOneof("stype")
    if st == "sig":
        return [[target.sig, b] for b in range(widths[target.sig])]
    if st == "slice":
        return [[target.slice.signal, b] for b in range(target.slice.bot, target.slice.top + 1)]
    if st == "concat":
        out = []
        for part in reversed(list(target.concat.parts)):  # parts are most-significant first
            out += read_bits(pmod, part)
        return out
    raise ValueError(st)


def attempt(h, x, c):
    """Fresh design with a sink of width c; returns the bits named by the exported connection, or None if raised."""
    _mods.clear()
    m = h.Module(name="T")
    try:
        expr = build(h, m, x)
        m.add(_child(h, "Sink", c)(p=expr), name="snk")
        pkg = h.to_proto(m)
        pm = [q for q in pkg.modules if q.name.endswith(".T")][0]
        pi = [i for i in pm.instances if i.name == "snk"][0]
        return read_bits(pm, pi.connections[0].target)
    except Exception:
        return None


def run_case(args):
    tid, x = args
    from ..hd import h
    _mods.clear()
    ev = {"tid": tid, "x": x, "cr": False, "wq": "na", "width": 0, "acc": []}
    m = h.Module(name="T")
    try:
        expr = build(h, m, x)
    except Exception as ex:
        ev["cr"] = True
        ev["exc"] = f"{type(ex).__name__}"
        return ev
    try:
        w = expr.width
        if isinstance(w, int) and not isinstance(w, bool):
            ev["wq"], ev["width"] = "ok", w
        else:
            ev["wq"] = "raised"
    except Exception as ex:
        ev["wq"] = "raised"
        ev["exc"] = f"{type(ex).__name__}"
    if ev["wq"] == "ok":
        cands = [max(1, ev["width"])]
    else:
        cands = list(range(1, min(8, sum(l["w"] for l in leaves(x))) + 1))
    for c in cands:
        bits = attempt(h, x, c)
        if bits is not None:
            ev["acc"].append([c, bits])
    return ev


def features(x, clause):
    f = set()
    def walk(y, top=True):
        if y["k"] == "slice":
            f.add("parent_" + y["of"]["k"])
            idx = y["idx"]
            if idx["k"] == "range":
                t = idx["t"] if idx["ht"] else 1
                if t < 0:
                    f.add("neg_step")
                elif t > 1:
                    f.add("pos_step_gt1")
            walk(y["of"], False)
        elif y["k"] == "cat":
            for p in y["parts"]:
                walk(p, False)
        else:
            f.add("leaf_" + y["k"])
    walk(x)
    return sorted(f)


def gen_cases(tier, seed):
    cases = []
    Wk = {"quick": {"sig": 4, "slice": 2, "cat": 2, "pref": 3, "bref": 3},
          "thorough": {"sig": 6, "slice": 4, "cat": 4, "pref": 4, "bref": 4}}[tier]
    for kind, W in Wk.items():
        for w in range(1, W + 1):
            p = parent_of(kind, w)
            for idx in all_indices(w, W):
                cases.append({"k": "slice", "of": p, "idx": idx})
    n_single = len(cases)
    # concatenations (outermost), exhaustive over 1-3 parts drawn from a small part alphabet
    parts = [lambda k: leaf("sig", f"s{k}", 1), lambda k: leaf("sig", f"s{k}", 2),
             lambda k: {"k": "slice", "of": leaf("sig", f"s{k}", 3), "idx": R(1, 3, None)},
             lambda k: {"k": "slice", "of": leaf("sig", f"s{k}", 2), "idx": I(-1)},
             lambda k: {"k": "slice", "of": leaf("sig", f"s{k}", 3), "idx": R(1, 9, None)},       # a stop bound beyond the parent: clamped, 2 bits
             lambda k: leaf("pref", f"i{k}", 2), lambda k: leaf("bref", f"b{k}", 2),
             lambda k: {"k": "cat", "parts": [leaf("sig", f"s{k}", 1), leaf("sig", f"t{k}", 2)]}]
    for n in (1, 2, 3):
        for combo in itertools.product(range(len(parts)), repeat=n):
            cases.append({"k": "cat", "parts": [parts[c](k) for k, c in enumerate(combo)]})
    # depth-2 nesting, exhaustive for small widths over a reduced index alphabet, on slice-of-slice and slice-of-concat
    Wn = 2 if tier == "quick" else 3
    for w in range(1, Wn + 1):
        for kind in ("sig", "cat"):
            p = parent_of(kind, w + 1)
            bnd1 = [None] + list(range(-(w + 1), w + 2))
            inner_idx = [R(a, b, t) for a in bnd1 for b in bnd1 for t in (None, -1, 2)]
            for i1 in inner_idx:
                inner = {"k": "slice", "of": p, "idx": i1}
                bnd2 = [None] + list(range(-w, w + 1))
                for i2 in [I(i) for i in range(-w - 1, w + 1)] + [R(a, b, t) for a in bnd2 for b in bnd2 for t in (None, -1, 2)]:
                    cases.append({"k": "slice", "of": inner, "idx": i2})
    n_nest2 = len(cases) - n_single
    # histories: another slice of the same parent object was taken first (written like this one but for an omitted / explicit bound or step)
    n_hist0 = len(cases)
    for kind in ("sig", "pref", "cat"):
        w = 4 if kind == "sig" else 3
        p = parent_of(kind, w)
        pres = [R(0, None, -1), R(None, None, -1), R(0, 1, -1), R(None, 1, -1), R(0, None, None), R(None, None, 1), R(None, w, None), R(0, w, 1), R(None, None, 2),
                R(0, None, 2), R(-1, None, -1), R(w - 1, None, -1), I(0), I(-w)]
        for pre in pres:
            for idx in small_indices(w):
                cases.append({"k": "slice", "of": p, "idx": idx, "pre": [pre]})
    n_hist = len(cases) - n_hist0
    rnd = random.Random(seed)
    nrand = 3000 if tier == "quick" else 40000
    for _ in range(nrand):
        cases.append(rand_expr(rnd, rnd.choice([2, 3, 3]), {}))
    return cases, {"single_level": n_single, "concat_and_depth2": n_nest2, "random_depth_2_3": nrand, "after_another_slice_of_the_same_parent": n_hist}


def run(tier, seed, replay_file=None):
    o = Outcome(PID, tier, seed)
    o.rule = ("index/slice/concat expressions: exhaustive single-level over parent widths 1..W, ints and bounds in [-2W,2W] or None, "
              "steps None,+-1..+-W on the five sliceable kinds; exhaustive concats of 1-3 parts; exhaustive depth-2 nesting for small widths; "
              "seeded random depth 2-3. Non-trivial = the spec classifies it 'ok' or 'either' (selects at least one bit); distinct by expression.")
    o.trusted_base = ["harness/props/c03.py driver + package reader (concat parts read most-significant first, slices bot..top inclusive)", "TLC"]
    r = tlc.must_ok(tlc.run("mc/MC_PySeq.tla", workers=8, tag="c03mc"), "MC_PySeq")
    o.add_mc("MC_PySeq", r, "W=4")
    if replay_file:
        cases = [json.loads(Path(replay_file).read_text())["case"]]
        counts = {"replay": 1}
    else:
        cases, counts = gen_cases(tier, seed)
    o.extra["case_counts"] = counts
    evs = pool_map(run_case, list(enumerate(cases)), chunksize=128)
    work = WORK / "c03"
    files = tlc.split_batches([[e] for e in evs], work, f"tr-{tier}", NPROC)
    res = tlc.validate_batches("trace/Trace_Slice.tla", "trace/Trace_Slice.cfg", files, jobs=NPROC, tag="c03val")
    verdicts = {}
    for r in res:
        o.transitions += r.generated
        for tid, ok, clause in r.verdicts:
            verdicts[tid] = (ok, clause)
    if len(verdicts) != len(cases):
        raise tlc.TlcError(f"C03: {len(cases)} cases, {len(verdicts)} verdicts")
    o.traces = len(verdicts)
    o.evaluations = len(cases)
    o.exhaustive = True
    nt = 0
    for tid, (ok, clause) in verdicts.items():
        cls = clause.split(":")[-1]
        o.cover["class_" + cls] = o.cover.get("class_" + cls, 0) + 1
        ev = evs[tid]
        if cls != "reject":
            nt += 1
        if ev["acc"]:
            o.cover["accepted"] = o.cover.get("accepted", 0) + 1
        for ft in features(cases[tid], clause):
            o.cover[ft] = o.cover.get(ft, 0) + 1
        if not ok:
            o.violations.append(Violation(clause=clause, case=cases[tid], features=features(cases[tid], clause) + ["class_" + cls],
                                          detail=ev if len(o.violations) < 40 else None))
    o.distinct_nontrivial = nt
    o.required_cover = ["class_ok", "class_reject", "class_either", "accepted", "parent_sig", "parent_slice", "parent_cat",
                        "parent_pref", "parent_bref", "neg_step"]
    rnd = random.Random(seed)
    for i in rnd.sample(range(len(cases)), 3):
        o.samples.append({"expr": cases[i], "observed": {k: evs[i][k] for k in ("cr", "wq", "width", "acc")}, "verdict": verdicts[i]})
    return o
