"""C05 - names invented during elaboration never capture the designer's names.

Base patterns exercise each name-inventing mechanism (implicit signal behind a port-reference group, unnamed and named no-connects,
flattened members of internal bundle instances incl. nested ones, array elements, Pair members).  For each pattern the designer-chosen
signal / instance / bundle names are chosen equal to every name the elaborator would generate (with 0-2 trailing underscores), in
both declaration orders.  TLC (Trace_Names) requires: the call raises, or the package is well formed, keeps every designer object and
denotes the design (C01 oracle; invented instance names compared up to trailing underscores).
"""
import copy
import itertools
import json
import random
from pathlib import Path

from .. import tlc, universe as U
from ..common import Outcome, Violation, WORK, NPROC, pool_map
from ..design import build, proj_package, I, R, Sig, Slc, Cat, Pref, Nc, Bund, Bref, Anon
from . import conn

PID = "C05"
B1L = U.B1_LEAVES
B2L = U.B2_LEAVES


def base_patterns():
    """(pattern name, design, invented signal names, invented instance names)"""
    inner = U.child(1)
    out = []
    # P1: port-reference group without a source -> implicit signal i0_a
    top = U.mod([U.sig("s")], [U.inst("i0", "Inner", []), U.inst("i1", "Inner", [("a", Pref("i0", "a"))])])
    out.append(("portref", U.design({"Inner": inner, "Top": top}), ["i0_a"], []))
    # P2: unnamed no-connect -> i0_a ; named no-connect -> its name
    top = U.mod([U.sig("s")], [U.inst("i0", "Inner", [("a", Nc(1))]), U.inst("i1", "Inner", [("a", Sig("s"))])])
    out.append(("noconn", U.design({"Inner": inner, "Top": top}), ["i0_a"], []))
    top = U.mod([U.sig("s")], [U.inst("i0", "Inner", [("a", Nc(1, "open"))]), U.inst("i1", "Inner", [("a", Sig("s"))])])
    out.append(("named_noconn", U.design({"Inner": inner, "Top": top}), ["open"], []))
    # P2b: two invented names that coincide WITH EACH OTHER: the implicit signals of a.b_c and of a_b.c are both a_b_c; two no-connects given one name
    ca, cc = U.mod([U.sig("b_c", 1, True)]), U.mod([U.sig("c", 1, True)])
    top = U.mod([U.sig("s")], [U.inst("a", "CA", []), U.inst("a_b", "CC", []), U.inst("j1", "CA", [("b_c", Pref("a", "b_c"))]), U.inst("j2", "CC", [("c", Pref("a_b", "c"))])])
    out.append(("twin_portref", U.design({"CA": ca, "CC": cc, "Top": top}), ["a_b_c"], []))
    top = U.mod([U.sig("s")], [U.inst("i0", "Inner", [("a", Nc(1, "open"))]), U.inst("i1", "Inner", [("a", Nc(2, "open"))]), U.inst("i2", "Inner", [("a", Sig("s"))])])
    out.append(("twin_noconn", U.design({"Inner": inner, "Top": top}), ["open"], []))
    # P3: internal bundle instances, flat and nested
    cb = U.mod([], U.bprobes("bp", B1L), [U.bnd("bp", "B1", port=True)])
    top = U.mod([U.sig("s")], [U.inst("k", "CB", [("bp", Bund("b"))])] + U.bprobes("b", B1L), [U.bnd("b", "B1")])
    out.append(("bundle", U.design({"CB": cb, "Top": top}, bundles={"B1": U.B1}), ["b_x", "b_y"], []))
    cb2 = U.mod([], U.bprobes("bq", B2L), [U.bnd("bq", "B2", port=True)])
    top = U.mod([U.sig("s")], [U.inst("k", "CB2", [("bq", Bund("c"))])] + U.bprobes("c", B2L), [U.bnd("c", "B2")])
    out.append(("nested_bundle", U.design({"CB2": cb2, "Top": top}, bundles={"B1": U.B1, "B2": U.B2}), ["c_s", "c_sub_x", "c_sub_y"], []))
    # P3a: implicit sources on BUNDLE-valued ports: a port-reference group without a source makes an implicit bundle instance k_bp (flattened to
    # k_bp_x, k_bp_y); a no-connect on a bundle port likewise
    top = U.mod([U.sig("s")], [U.inst("k", "CB", []), U.inst("j", "CB", [("bp", Pref("k", "bp"))])])
    out.append(("portref_bundle", U.design({"CB": cb, "Top": top}, bundles={"B1": U.B1}), ["k_bp", "k_bp_x", "k_bp_y"], []))
    top = U.mod([U.sig("s")], [U.inst("k", "CB", [("bp", Nc(1))]), U.inst("j", "CB", [("bp", Nc(2, "open"))])])
    out.append(("noconn_bundle", U.design({"CB": cb, "Top": top}, bundles={"B1": U.B1}), ["k_bp", "k_bp_x", "open", "open_y"], []))
    # P3b: members of ONE bundle whose flattened names coincide with each other: scalar a_b beside sub-bundle a with signal b
    BA = {"sigs": [U.bsig("b", 1)], "subs": [], "roles": []}
    BC = {"sigs": [U.bsig("a_b", 1)], "subs": [{"n": "a", "of": "BA", "flipped": False}], "roles": []}
    BCL = [(("a_b",), 1), (("a", "b"), 1)]
    cbc = U.mod([], U.bprobes("bp", BCL), [U.bnd("bp", "BC", port=True)])
    top = U.mod([U.sig("s")], [U.inst("k", "CBC", [("bp", Bund("x"))])] + U.bprobes("x", BCL), [U.bnd("x", "BC")])
    out.append(("self_colliding_bundle", U.design({"CBC": cbc, "Top": top}, bundles={"BA": BA, "BC": BC}), ["x_a_b"], []))
    # P4: arrays ; P5: pairs
    top = U.mod([U.sig("s"), U.sig("w2", 2)], [U.inst("arr", "L1", [("a", Sig("w2"))], kind="array", arr=2, k="ext")])
    out.append(("array", U.design({"Top": top}), [], ["arr_0", "arr_1"]))
    top = U.mod([U.sig("s"), U.sig("t")], [U.inst("pr", "L1", [("a", Anon(p=Sig("s"), n=Sig("t")))], kind="pair", k="ext")])
    out.append(("pair", U.design({"Top": top}, bundles={"Diff": U.DIFF}), [], ["pr_p", "pr_n"]))
    # P6: an instance-bundle type of the designer's own (h.InstanceBundleType) over a bundle whose member names differ by a trailing underscore
    # (a clock and its complement): the members' invented names can meet EACH OTHER once a designer name pushes one of them on
    CLK = {"sigs": [U.bsig("clk", 1), U.bsig("clk_", 1)], "subs": [], "roles": []}
    ib = U.inst("bufs", "L1", [("a", Anon(clk=Sig("s"), clk_=Sig("t")))], kind="pair", k="ext")
    ib["ibt"], ib["members"] = "Clks", ["clk", "clk_"]
    top = U.mod([U.sig("s"), U.sig("t")], [ib])
    out.append(("instbundle", U.design({"Top": top}, bundles={"Clks": CLK}), [], ["bufs_clk", "bufs_clk_"]))
    return out


LIMIT = 511        # the longest name the elaborator may generate (ElabPass.flatname)


def long_cases():
    """invented names at the length limit: the designer already owns the name the elaborator would generate, and no longer one exists.
    The elaborator may refuse such a design, or find another name - but may not take the designer's name."""
    out = []
    for slack in (0, 1, 2):
        pn = "a" * (LIMIT - 2 - slack)                      # u_<pn> has LIMIT - slack characters
        inner = U.mod([U.sig(pn, 1, True)])
        target = "u_" + pn
        names = [target + "_" * k for k in range(slack + 1)]     # every candidate up to the limit is taken
        for which in ("portref", "noconn"):
            if which == "portref":
                insts = [U.inst("u", "InnerL", []), U.inst("v", "InnerL", [(pn, Pref("u", pn))])]
            else:
                insts = [U.inst("u", "InnerL", [(pn, Nc(1))]), U.inst("v", "InnerL", [(pn, Sig("s"))])]
            for order in ("before", "after"):
                sigs = [U.sig("s")] + [U.sig(n) for n in names]
                top = U.mod(sigs, insts)
                base = ["s"] + [i["n"] for i in top["insts"] if not any(i["n"] == f"pr_{n}_0" for n in names)]
                mine = names + [f"pr_{n}_0" for n in names]
                top["order"] = (mine + base) if order == "before" else (base + mine)
                out.append({"pattern": "limit_" + which, "target": f"u_a*{len(pn)}", "taken": [f"{len(n)} chars" for n in names], "kind": "signal", "order": order,
                            "D": U.design({"InnerL": inner, "Top": top})})
        nm = "o" * (LIMIT - slack)
        names = [nm + "_" * k for k in range(slack + 1)]
        inner1 = U.child(1)
        for order in ("before", "after"):
            sigs = [U.sig("s")] + [U.sig(n) for n in names]
            insts = [U.inst("i0", "Inner", [("a", Nc(1, nm))]), U.inst("i1", "Inner", [("a", Sig("s"))])]
            top = U.mod(sigs, insts)
            base = ["s"] + [i["n"] for i in top["insts"] if not any(i["n"] == f"pr_{n}_0" for n in names)]
            mine = names + [f"pr_{n}_0" for n in names]
            top["order"] = (mine + base) if order == "before" else (base + mine)
            out.append({"pattern": "limit_named_noconn", "target": f"o*{len(nm)}", "taken": [f"{len(n)} chars" for n in names], "kind": "signal", "order": order,
                        "D": U.design({"Inner": inner1, "Top": top})})
    return out


def relabel(pattern, D, inv_sigs, inv_insts, max_us=2, pairs=False):
    """yield designs with designer objects named like the invented names"""
    allinv = inv_sigs + inv_insts
    yield {"pattern": pattern, "target": "", "taken": [], "kind": "none", "order": "before", "D": copy.deepcopy(D)}     # the bare pattern
    targets = list(allinv)
    if pairs:
        # thorough tier: two invented names taken at once
        targets += [a + "+" + b for a, b in itertools.combinations(allinv, 2)]
    for target in targets:
        for extra_us in range(max_us + 1):
            names = [t + "_" * k for t in target.split("+") for k in range(extra_us + 1)]          # target, target_, target__ all taken
            names = list(dict.fromkeys(names))      # (two invented names that differ by underscores only - bufs_clk, bufs_clk_ - give one list)
            for kind in ("signal", "signal2", "instance", "bundle", "array"):
                for order in ("before", "after"):
                    D2 = copy.deepcopy(D)
                    top = D2["mods"]["Top"]
                    base_order = [s["n"] for s in top["sigs"]] + [b["n"] for b in top["bundles"]] + [i["n"] for i in top["insts"]]
                    new = []
                    for n in names:
                        if kind in ("signal", "signal2"):
                            w = 1 if kind == "signal" else 2
                            top["sigs"].append(U.sig(n, w))
                            for k in range(w):
                                top["insts"].append(U.probe(f"dp_{n}_{k}", U.bit(n, w, k)))
                                new.append(f"dp_{n}_{k}")
                            new.insert(0, n)
                        elif kind == "instance":
                            top["insts"].append(U.inst(n, "L1", [("a", Sig("s"))], k="ext"))
                            new.append(n)
                        elif kind == "array":
                            # an InstanceArray of the designer's, named like an invented name (its own elements are invented names in turn)
                            top["sigs"].append(U.sig("aw_" + n, 2))
                            for k in range(2):
                                top["insts"].append(U.probe(f"dp_aw_{n}_{k}", U.bit("aw_" + n, 2, k)))
                                new.append(f"dp_aw_{n}_{k}")
                            top["insts"].append(U.inst(n, "L1", [("a", Sig("aw_" + n))], kind="array", arr=2, k="ext"))
                            new = ["aw_" + n] + new + [n]
                        elif kind == "bundle":
                            D2["bundles"].setdefault("B1", U.B1)
                            top["bundles"].append(U.bnd(n, "B1"))
                            top["insts"] += [x for x in U.bprobes(n, B1L)]
                            new += [n] + [x["n"] for x in U.bprobes(n, B1L)]
                    top["order"] = (new + base_order) if order == "before" else (base_order + new)
                    yield {"pattern": pattern, "target": target, "taken": names, "kind": kind, "order": order, "D": D2}


def run_case(args):
    tid, case = args
    from ..hd import h
    D = case["D"]
    ev = {"tid": tid, "D": D, "raised": False, "P": conn.EMPTY_P, "exc": "", "renamed": []}
    try:
        pkg = h.to_proto(build(h, D, "proc"))
        P = proj_package(pkg, D["top"])
        # Invented instance names (array elements, pair members) are compared up to trailing underscores: every package instance
        # that is not a designer instance is renamed "~" + its name without trailing underscores, and in the copy of the design given
        # to TLC the arrays / pairs are renamed "~" + name, so that Design!Elems produces the same tagged names.
        designer = {i["n"] for i in D["mods"][D["top"]]["insts"] if i["kind"] == "inst"}
        pm = P["mods"][P["top"]]
        if case["pattern"] == "instbundle":
            # here two invented names differ ONLY by trailing underscores (bufs_clk / bufs_clk_), so the invented instances are told apart by what
            # they are for instead: the member on signal s is the one for `clk`, the one on t the one for `clk_`
            for i in pm["insts"]:
                if i["n"] not in designer:
                    on = [c["t"].get("n", "") for c in i["conns"] if c["p"] == "a"]
                    to = {"s": "~bufs_clk", "t": "~bufs_clk_"}.get(on[0] if on else "", "~" + i["n"])
                    ev["renamed"].append([i["n"], to])
                    i["n"] = to
            designer = {i["n"] for i in pm["insts"]}
        for i in pm["insts"]:
            if i["n"] not in designer:
                ev["renamed"].append([i["n"], "~" + i["n"].rstrip("_")])
                i["n"] = "~" + i["n"].rstrip("_")
        D2 = copy.deepcopy(D)
        for i in D2["mods"][D2["top"]]["insts"]:
            if i["kind"] != "inst":
                i["n"] = "~" + i["n"]
        ev["D"] = D2
        ev["P"] = P
    except Exception as ex:
        ev["raised"] = True
        ev["exc"] = f"{type(ex).__name__}: {str(ex).strip().splitlines()[-1][:160] if str(ex).strip() else ''}"
    return ev


def run(tier, seed, replay_file=None):
    o = Outcome(PID, tier, seed)
    o.rule = ("7 base patterns (one per name-inventing mechanism) x every invented name x 0-2 trailing-underscore variants also taken x designer "
              "object kind (1-bit signal, 2-bit signal, instance, bundle instance) x declaration order; non-trivial = every case; distinct by case.")
    o.trusted_base = ["harness/props/c05.py (relabelling; renaming of invented instance names to their base by stripping trailing underscores)", "harness/design.py", "TLC"]
    if replay_file:
        cases = [json.loads(Path(replay_file).read_text())["case"]]
    else:
        cases = []
        for pat, D, s, i in base_patterns():
            cases += list(relabel(pat, D, s, i, max_us=2 if tier == "quick" else 4, pairs=tier != "quick"))
        cases += long_cases()
    evs = pool_map(run_case, list(enumerate(cases)), chunksize=16)
    files = tlc.split_batches([[e] for e in evs], WORK / "c05", f"tr-{tier}", NPROC)
    res = tlc.validate_batches("trace/Trace_Names.tla", "trace/Trace_Names.cfg", files, jobs=NPROC, tag="c05val")
    verdicts = {}
    for r in res:
        o.transitions += r.generated
        o.states += r.distinct
        for tid, ok, clause in r.verdicts:
            verdicts[tid] = (ok, clause)
    if len(verdicts) != len(cases):
        raise tlc.TlcError(f"C05: {len(cases)} cases, {len(verdicts)} verdicts")
    o.traces = o.evaluations = len(cases)
    o.distinct_nontrivial = len(cases)
    o.exhaustive = True
    for i, case in enumerate(cases):
        ok, clause = verdicts[i]
        c = clause.split(":")[0]
        o.cover[c] = o.cover.get(c, 0) + 1
        o.cover["pattern_" + case["pattern"]] = o.cover.get("pattern_" + case["pattern"], 0) + 1
        if not ok:
            feats = ["pattern_" + case["pattern"], "kind_" + case["kind"], "order_" + case["order"]]
            meta = {k: case[k] for k in ("pattern", "target", "taken", "kind", "order")}
            o.violations.append(Violation(clause=c, case=case, features=feats, detail={"meta": meta, "exc": evs[i]["exc"], "P": evs[i]["P"]} if len(o.violations) < 20 else None))
    o.required_cover = ["ok_kept"] + ["pattern_" + p for p in ("portref", "noconn", "named_noconn", "bundle", "nested_bundle", "self_colliding_bundle", "array", "pair", "instbundle", "portref_bundle", "noconn_bundle", "twin_portref", "twin_noconn")]
    rnd = random.Random(seed)
    for i in rnd.sample(range(len(cases)), 2):
        o.samples.append({k: cases[i][k] for k in ("pattern", "target", "taken", "kind", "order")} | {"verdict": verdicts[i], "renamed": evs[i]["renamed"]})
    return o
