"""C07 - elaboration results do not depend on elaboration history.

MC  : ElabSched is model-checked (AppliedInOrder, ChildrenFirst, HistoryIndependent, MarkedAreComplete, CheckedAfterFlatten,
      NoStalePending) over four module-DAG shapes with the pass list and cache assignment READ FROM THE RUNNING CODE; TLC emits
      every call history (lists of tops per call).
RUN : each history x assignment of entry points (elaborate / to_proto / netlist) is replayed on fresh copies of the DAG in a fresh
      process (the caches are process-global), with the elaboration hooks recording every pass visit; afterwards every module is
      exported on its own, a new parent is made for an already elaborated module, and an addition to it is attempted.
VAL : Trace_Elab requires the hook events to be a behaviour of ElabSched; Trace_Register requires every output (package bytes,
      netlist text) to be the same in every history, including the single-call reference histories.
"""
import itertools
import json
import random
from pathlib import Path

from .. import tlc, passlist
from ..common import Outcome, Violation, WORK, NPROC
from .. import elabtrace as ET

PID = "C07"
KINDS = ["to_proto", "elaborate", "netlist"]


def replay(args):
    tid, case = args
    from ..hd import h
    from hdl21 import _verif
    from ..design import Builder
    shape, calls, kinds = case["shape"], case["calls"], case["kinds"]
    D = ET.shape_design(shape)
    bld = Builder(h, D, "proc")
    for name in D["mods"]:
        bld.module(name)
    mods = bld.mods
    passes = passlist.read()
    sink = ET.Sink([p["name"] for p in passes])
    _verif.set_sink(sink)
    events, outs = [], []
    seq = 0

    def emit(ev):
        nonlocal seq
        seq += 1
        ev.update({"tid": tid, "seq": seq})
        for k, d in (("pos", 0), ("cache", ""), ("mod", ""), ("ndone", 0), ("pending", []), ("tops", []), ("children", {}), ("np", 0),
                     ("kindof", []), ("raised", False), ("strict", True), ("caches", []), ("elab", False)):
            ev.setdefault(k, d)
        events.append(ev)
    children = ET.SHAPES[shape]
    for tops, kind in zip(calls, kinds):
        emit({"ev": "call_begin", "tops": tops, "children": children, "np": len(passes), "kindof": [p["kind"] for p in passes],
              "caches": [p["cache"] for p in passes]})
        sink.events.clear()
        raised, dg, exc = ET.do_call(h, kind, [mods[t] for t in tops])
        for e in sink.events:
            emit(dict(e))
        emit({"ev": "call_end", "raised": raised})
        if raised:
            outs.append({"tid": tid, "key": f"{shape}|{kind}|{','.join(tops)}|raised", "val": exc})
        elif kind != "elaborate":
            outs.append({"tid": tid, "key": f"{shape}|{kind}|{','.join(tops)}", "val": dg})
    _verif.set_sink(None)
    fresh = bool(case.get("fresh_parents"))
    # afterwards: every module on its own
    for name in ([] if fresh else sorted(mods)):
        raised, dg, exc = ET.do_call(h, "to_proto", [mods[name]])
        outs.append({"tid": tid, "key": f"{shape}|to_proto|{name}", "val": exc if raised else dg})
    # an already elaborated module instantiated by a NEW parent, which must see its bundle-level port; and a refused addition
    # (in the `fresh_parents` reference histories nothing was elaborated before: the new parents must come out the same, and a parent that
    #  is refused on a fresh child must be refused on an elaborated one)
    extra = []
    if case.get("partial"):
        # a history that leaves the child flattened but not finished: a custom Elaborator holding only the passes up to bundle flattening
        from hdl21.elab.elab import Elaborator
        default = Elaborator.default().passes
        upto = [p.__name__ for p in default].index("BundleFlattener") + 1
        for name in case["parents_of"]:
            try:
                Elaborator(passes=list(default[:upto])).elaborate(mods[name])
            except Exception:
                pass
    if not fresh:
        # namesakes: DIFFERENT modules called like the elaborated ones (their bundle port is of another bundle type) are elaborated in between
        for name in sorted(set(t for c in calls for t in c)):
            m = mods[name]
            if m._elaborated is not None and "bp" in (m._pre_flattening_io or {}):
                from ..design import make_namesake
                twin = make_namesake(h, m.name)
                try:
                    h.elaborate(twin)
                except Exception:
                    pass
    for name in sorted(set(t for c in calls for t in c) if not fresh else case["parents_of"]):
        m = mods[name]
        if m._elaborated is None and not fresh:
            continue
        has_bp = "bp" in (m._pre_flattening_io or {}) or m.get("bp") is not None
        def step_bad():
            # a bundle of ANOTHER type whose signals are a strict superset of the port's: not a B1, must be refused whatever happened before
            from hdl21 import Bundle
            sup = Bundle(name="B1sup")
            sup.x, sup.y, sup.extra = h.Signal(), h.Signal(width=2), h.Signal()
            bad = h.Module(name="BadParent_" + name)
            bad.s = h.Signal()
            bad.b = sup()
            bad.i = m(p=bad.s, bp=bad.b)
            raised, dg, exc = ET.do_call(h, "to_proto", [bad])
            outs.append({"tid": tid, "key": f"{shape}|badparent|{name}", "val": "refused" if raised else "accepted"})

        def step_p():
            p = h.Module(name="NewParent_" + name)
            p.s = h.Signal()
            if has_bp:
                p.b = bld.bundle("B1")()
                p.i = m(p=p.s, bp=p.b)
            else:
                p.w = h.Signal(width=2)
                p.i = m(p=p.s, q=p.w)
            raised, dg, exc = ET.do_call(h, "to_proto", [p])
            outs.append({"tid": tid, "key": f"{shape}|newparent|{name}", "val": exc if raised else dg})

        def step_q():
            # ... also reaching the module's bundle-valued port through a port reference, and leaving it open
            q = h.Module(name="NewParentRef_" + name)
            q.s = h.Signal()
            q.b = bld.bundle("B1")()
            q.i1 = m(p=q.s, bp=q.b)
            q.i2 = m(p=q.s, bp=q.i1.bp)
            q.i3 = m(p=q.i1.p, bp=h.NoConn())
            raised, dg, exc = ET.do_call(h, "to_proto", [q])
            outs.append({"tid": tid, "key": f"{shape}|newparent|ref_{name}", "val": exc if raised else dg})
        def step_r():
            # ... and the bundle-valued port of an instance that names it ONLY by port reference (not connected at the call): the reference itself
            # is made on a child that was elaborated before - putting the parent together is part of what must still work
            try:
                r = h.Module(name="NewParentOnlyRef_" + name)
                r.s = h.Signal()
                r.i1 = m(p=r.s)
                r.i2 = m(p=r.i1.p, bp=r.i1.bp)
            except Exception as ex:
                outs.append({"tid": tid, "key": f"{shape}|newparent|onlyref_{name}", "val": f"{type(ex).__name__}: could not be put together"})
                return
            raised, dg, exc = ET.do_call(h, "to_proto", [r])
            outs.append({"tid": tid, "key": f"{shape}|newparent|onlyref_{name}", "val": exc if raised else dg})
        # (the order matters: each step that gets as far as exporting completes the child's elaboration for those that follow)
        steps = [step_bad, step_p, step_q, step_r] if has_bp else [step_p]
        if has_bp and (case.get("partial") or tid % 2):
            steps = [step_r, step_q, step_bad, step_p] if tid % 4 >= 2 else [step_q, step_bad, step_p, step_r]
        for st in steps:
            st()
        if fresh:
            continue
        # additions to an elaborated module must be refused - and a refused one must leave the module as it was
        attempts = [("late", lambda: m.add(h.Signal(name="late"))), ("p", lambda: setattr(m, "p", h.Input()))]
        inst_names = list(m.instances)
        if inst_names:
            attempts.append((inst_names[0], lambda: setattr(m, inst_names[0], h.Instance(of=mods["E"]))))
        for an, fn in attempts:
            try:
                fn()
                extra.append({"tid": tid, "key": f"{shape}|add_after_elab|{name}.{an}", "val": "accepted"})
            except Exception:
                extra.append({"tid": tid, "key": f"{shape}|add_after_elab|{name}.{an}", "val": "refused"})
    # ... every module once more, after the refused additions: same outputs as before
    for name in ([] if fresh else sorted(mods)):
        raised, dg, exc = ET.do_call(h, "to_proto", [mods[name]])
        extra.append({"tid": tid, "key": f"{shape}|to_proto|{name}", "val": exc if raised else dg})
    return events, outs + extra


def suite_traces(o, tier, strict_traces):
    """The repository's own test-suite under the hooks: every pytest process's event stream must be a behaviour of the scheduler bookkeeping
    (Trace_ElabSuite).  Then the binding is demonstrated on this very run: traces with one recorded field corrupted, one event dropped or two
    events swapped must be REJECTED by the trace specs - if one is accepted the machinery is broken (exit 2), not the library."""
    from .. import suite
    res = suite.collect()
    bad_runs = [r for r in res if r["rc"] not in (0, 5)]
    if bad_runs:
        raise tlc.TlcError("test-suite under hooks did not pass: " + "; ".join(f"{r['file']}: {r['summary']}" for r in bad_runs))
    traces = []
    names = []
    for r in res:
        if r["events"]:
            for e in r["events"]:
                e["tid"] = len(traces)
            traces.append(r["events"])
            names.append(r["file"])
    files = tlc.split_batches(traces, WORK / "c07", f"suite-{tier}", NPROC)
    out = tlc.validate_batches("trace/Trace_ElabSuite.tla", "trace/Trace_ElabSuite.cfg", files, jobs=NPROC, tag="c07suite")
    nv = 0
    for rr in out:
        o.transitions += rr.generated
        for tid, ok, clause in rr.verdicts:
            nv += 1
            if not ok:
                k = int(clause.split("@")[1]) if "@" in clause else 0
                o.violations.append(Violation(clause="suite:" + clause.split("@")[0], case={"test_file": names[tid], "test": traces[tid][max(0, k - 1)].get("test", "")},
                                              features=["suite", names[tid]], detail=traces[tid][max(0, k - 8):k + 2]))
    if nv != len(traces):
        raise tlc.TlcError(f"C07 suite: {len(traces)} traces, {nv} verdicts")
    o.cover["suite_events"] = sum(len(t) for t in traces)
    o.cover["suite_test_files"] = len(traces)
    o.evaluations += sum(len(t) for t in traces)
    o.traces += len(traces)
    # ---- binding demonstration
    import copy
    def tamper(tr, how):
        t = copy.deepcopy(tr)
        idx = [k for k, e in enumerate(t) if e["ev"] == "enter"]
        if how == "ndone":
            k = idx[len(idx) // 2]
            t[k]["ndone"] += 1
        elif how == "drop_exit":
            k = [k for k, e in enumerate(t) if e["ev"] == "exit"][len(idx) // 3]
            del t[k]
        elif how == "drop_enter":
            del t[idx[len(idx) // 2]]
        elif how == "pending":
            k = idx[-1]
            t[k]["pending"] = t[k]["pending"][:-1]
        elif how == "skip_as_enter":
            ks = [k for k, e in enumerate(t) if e["ev"] == "skip_done"]
            if not ks:
                return None
            t[ks[len(ks) // 2]]["ev"] = "enter"
        return t
    tampered = []
    spec_of = []
    src = max(traces, key=len)
    strict_src = max(strict_traces, key=len)
    for how in ("ndone", "drop_exit", "drop_enter", "pending", "skip_as_enter"):
        for which, base in (("Trace_ElabSuite", src), ("Trace_Elab", strict_src)):
            t = tamper(base, how)
            if t is None:
                continue
            for e in t:
                e["tid"] = len(tampered)
            tampered.append(t)
            spec_of.append((which, how))
    rejected = 0
    for which in ("Trace_ElabSuite", "Trace_Elab"):
        sel = [t for t, (w, _) in zip(tampered, spec_of) if w == which]
        files = tlc.split_batches(sel, WORK / "c07", f"tamper-{which}-{tier}", 1)
        for rr in tlc.validate_batches(f"trace/{which}.tla", f"trace/{which}.cfg", files, jobs=1, tag="c07tamper"):
            for tid, ok, clause in rr.verdicts:
                if ok:
                    raise tlc.TlcError(f"binding check failed: {spec_of[tid][0]} ACCEPTED a trace tampered by '{spec_of[tid][1]}'")
                rejected += 1
    if rejected != len(tampered):
        raise tlc.TlcError(f"binding check: {len(tampered)} tampered traces, {rejected} verdicts")
    o.cover["tampered_traces_rejected"] = rejected
    o.extra["binding_demonstration"] = [f"{w}: {h} -> rejected" for w, h in spec_of]


def reference_case(shape, name):
    return {"shape": shape, "calls": [[name]], "kinds": ["to_proto"], "reference": True}


def run(tier, seed, replay_file=None):
    o = Outcome(PID, tier, seed)
    o.rule = ("(i) call histories enumerated by TLC from MC_ElabSched (4 DAG shapes of 5 modules with sharing; 2 calls quick / 3 thorough; top lists of 1-2 modules) "
              "x entry-point assignments; non-trivial = a later call touches a module processed by an earlier one; distinct by (history, kinds). (ii) the hook traces of "
              "the repository's own test-suite, one pytest process per test file, validated against the scheduler bookkeeping (Trace_ElabSuite). (iii) tampered "
              "copies of accepted traces, which must be rejected.")
    o.trusted_base = ["harness/elabtrace.py (hook sink, digests)", "harness/props/c07.py driver", "harness/design.py builder", "TLC"]
    rnd = random.Random(seed)
    passes = passlist.write_tla()
    o.extra["pass_list_from_code"] = passes
    cases = []
    if replay_file:
        cases = [json.loads(Path(replay_file).read_text())["case"]]
    else:
        ncalls = 2 if tier == "quick" else 3
        for shape in ET.SHAPES:
            cfg = WORK / "c07" / f"MC_ElabSched_{shape}.cfg"
            cfg.parent.mkdir(parents=True, exist_ok=True)
            base = (tlc.SPEC / "mc" / "MC_ElabSched.cfg").read_text()
            cfg.write_text(base.replace('Shape = "diamond"', f'Shape = "{shape}"').replace("MaxCalls = 2", f"MaxCalls = {ncalls}"))
            r = tlc.run("mc/MC_ElabSched.tla", str(cfg), workers=4, tag="c07mc")
            if r.rc != 0:
                if r.invariant_violated:
                    o.violations.append(Violation(clause="model:" + r.invariant_violated, case={"shape": shape, "passes": passes},
                                                  features=["model_level"], detail=r.out[-3000:]))
                    continue
                raise tlc.TlcError(f"MC_ElabSched {shape}: " + r.out[-1500:])
            o.add_mc("MC_ElabSched", r, f"shape={shape} MaxCalls={ncalls} passes={[p['name'] for p in passes]}")
            for c in r.cases:
                combos = list(itertools.product(KINDS, repeat=len(c["calls"])))
                if tier == "quick":
                    combos = rnd.sample(combos, 4)
                elif len(combos) > 9:
                    combos = rnd.sample(combos, 9)
                for ks in combos:
                    cases.append({"shape": shape, "calls": c["calls"], "kinds": list(ks)})
            for name in ET.SHAPES[shape]:
                cases.append(reference_case(shape, name))
                cases.append({"shape": shape, "calls": [], "kinds": [], "reference": True, "fresh_parents": True, "parents_of": [name]})
                cases.append({"shape": shape, "calls": [], "kinds": [], "fresh_parents": True, "partial": True, "parents_of": [name]})
        o.exhaustive = True
    import multiprocessing as mp
    ctx = mp.get_context("fork")
    from ..hd import h  # noqa: F401  (imported before forking; nothing is built in the parent)
    with ctx.Pool(NPROC, maxtasksperchild=1) as pool:
        out = pool.map(replay, list(enumerate(cases)), chunksize=1)
    traces = [t for t, _ in out]
    regs = [r for _, r in out]
    files = tlc.split_batches(traces, WORK / "c07", f"ev-{tier}", NPROC)
    res = tlc.validate_batches("trace/Trace_Elab.tla", "trace/Trace_Elab.cfg", files, jobs=NPROC, tag="c07val")
    v1 = {}
    for r in res:
        o.transitions += r.generated
        o.states += r.distinct
        for tid, ok, clause in r.verdicts:
            v1[tid] = (ok, clause)
    # reference histories first, so that the register holds the fresh-process single-call value
    order = sorted(range(len(cases)), key=lambda i: 0 if cases[i].get("reference") else 1)
    files = tlc.split_batches([regs[i] for i in order], WORK / "c07", f"reg-{tier}", 1)
    res = tlc.validate_batches("trace/Trace_Register.tla", "trace/Trace_Register.cfg", files, jobs=1, tag="c07reg")
    v2 = {}
    for r in res:
        o.transitions += r.generated
        for tid, ok, clause in r.verdicts:
            v2[tid] = (ok, clause)
    for i, t in enumerate(traces):
        if not t:
            v1.setdefault(i, (True, ""))        # (the fresh-parent reference histories make no call of their own: no events)
    if len(v1) != len(cases) or len(v2) != len(cases):
        raise tlc.TlcError(f"C07: {len(cases)} histories, {len(v1)} event verdicts, {len(v2)} register verdicts")
    o.traces = len(cases)
    o.evaluations = sum(len(t) for t in traces)
    nt = 0
    for i, case in enumerate(cases):
        seen = set()
        overlap = False
        for tops in case["calls"]:
            cl = set()
            stack = list(tops)
            while stack:
                m = stack.pop()
                if m not in cl:
                    cl.add(m)
                    stack += ET.SHAPES[case["shape"]][m]
            if cl & seen:
                overlap = True
            seen |= cl
        nt += 1 if overlap else 0
        for ev in traces[i]:
            o.cover[ev["ev"]] = o.cover.get(ev["ev"], 0) + 1
        for r in regs[i]:
            k = r["key"].split("|")[1]
            o.cover["out_" + k] = o.cover.get("out_" + k, 0) + 1
            if k == "add_after_elab" and r["val"] != "refused":
                o.violations.append(Violation(clause="addition_after_elaboration_accepted", case=case, features=[], detail=r))
            if k == "badparent" and r["val"] != "refused":
                o.violations.append(Violation(clause="parent_with_a_bundle_of_another_type_accepted", case=case, features=[], detail=r))
            if k == "newparent" and ":" in r["val"]:
                o.violations.append(Violation(clause="new_parent_of_elaborated_module_rejected", case=case, features=[], detail=r))
        ok1, c1 = v1[i]
        ok2, c2 = v2[i]
        if not ok1:
            o.violations.append(Violation(clause="sched:" + c1, case=case, features=["shape_" + case["shape"]], detail=traces[i][:60]))
        if not ok2:
            o.violations.append(Violation(clause="output:" + c2, case=case, features=["shape_" + case["shape"]], detail=regs[i]))
    o.distinct_nontrivial = nt
    if not replay_file and any(traces):
        suite_traces(o, tier, [t for t in traces if t])
    elif not replay_file:
        # (the model itself was refuted for every shape: no histories to replay - the model-level violations above are the verdict)
        o.required_cover = []
        return o
    o.required_cover = ["skip_done", "enter", "apply_begin", "exit", "call_end", "out_to_proto", "out_netlist", "out_newparent", "out_add_after_elab",
                        "suite_events", "tampered_traces_rejected"]
    for i in rnd.sample(range(len(cases)), 2):
        o.samples.append({"case": cases[i], "first_events": traces[i][:6], "outputs": regs[i][:4], "verdicts": [v1[i], v2[i]]})
    return o
