"""C04 - the last connection made to a port is the one that gets built.

GEN : TLC enumerates every history of MC_Build (connect / replace / disconnect / read over two scalar and two bundle-valued ports, ten kinds of
      connectable, canonical completing suffix) together with the final mapping of the spec.
RUN : each history is replayed on real instances (connect-by-call, by-assignment and connect() alternate); after every call the conns
      dictionaries and every connectable's back-reference set are projected.  Finally the module is exported.
VAL : Trace_Build checks every step against Build!Apply; Trace_Conn checks that the package denotes the design given by the spec's FINAL mapping
      (so anything replaced or disconnected must have left no electrical trace).
"""
import itertools
import json
import random
from pathlib import Path

from .. import tlc
from ..common import Outcome, Violation, WORK, NPROC, pool_map
from ..design import I, R, Sig, Slc, Cat, Pref, Nc, Bund, Bref, Anon, AnonDict, proj_package
from .. import universe as U
from . import conn

PID = "C04"
PORTS = ["i0.a", "i1.a", "i0.bp", "i1.bp"]


def other(inst):
    return "i1" if inst == "i0" else "i0"


def term_of(port, label, ncid):
    inst, pn = port.split(".")
    return {"s": Sig("s"), "t": Sig("t"), "bus0": Slc(Sig("bus"), I(0)), "cat": Cat(Slc(Sig("bus"), I(1))),
            "nc": Nc(ncid), "b": Bund("b"), "c": Bund("c"), "anon": Anon(x=Sig("s"), y=Sig("v2")),
            "dict": AnonDict(x=Sig("t"), y=Sig("v2")),
            # a member that is a reference to the OTHER instance's scalar port (which has, or gets, a connection of its own)
            "anonp": Anon(x=Pref(other(inst), "a"), y=Sig("v2")), "dictp": AnonDict(x=Pref(other(inst), "a"), y=Sig("v2")),
            "bref": Bref("b", "x"),                           # a member of the module's bundle instance b (resolved when bundles are flattened)
            "prefbit": Slc(Pref(other(inst), pn), I(0)),      # a slice (here: bit 0) of a reference to the other instance's port
            "pref": Pref(other(inst), pn)}[label]


def final_design(final):
    bundles = {"B1": U.B1}
    cb = U.mod([U.sig("a", 1, True)], U.bprobes("bp", U.B1_LEAVES), [U.bnd("bp", "B1", port=True)])
    sigs = [U.sig("s"), U.sig("t"), U.sig("bus", 2), U.sig("v2", 2)]
    conns = {"i0": [], "i1": []}
    for k, (port, label) in enumerate(zip(PORTS, final)):
        inst, pn = port.split(".")
        conns[inst].append((pn, term_of(port, label, 100 + k)))
    insts = [U.inst("i0", "CB", conns["i0"]), U.inst("i1", "CB", conns["i1"])]
    top = U.mod(sigs, insts + U.bprobes("b", U.B1_LEAVES) + U.bprobes("c", U.B1_LEAVES), [U.bnd("b", "B1"), U.bnd("c", "B1")])
    return U.design({"CB": cb, "Top": top}, bundles=bundles)


def replay(args):
    tid, case = args
    from ..hd import h
    from ..design import Builder
    hist, final = case["hist"], case["final"]
    # the skeleton: the final design without the two instances' connections, built through the ordinary builder
    D = final_design(final)
    for i in D["mods"]["Top"]["insts"]:
        if i["n"] in ("i0", "i1"):
            i["conns"] = []
    bld = Builder(h, D, "proc")
    top = bld.build()
    ns = top.namespace
    insts = {"i0": ns["i0"], "i1": ns["i1"]}
    vids = {}          # python id -> vid
    keep = []
    labels = {}
    events = []

    def make(port, label):
        inst, pn = port.split(".")
        if label == "s":
            return ns["s"]
        if label == "t":
            return ns["t"]
        if label == "bus0":
            return ns["bus"][0]
        if label == "cat":
            return h.Concat(ns["bus"][1])
        if label == "nc":
            return h.NoConn()
        if label == "b":
            return ns["b"]
        if label == "c":
            return ns["c"]
        if label == "anon":
            return h.AnonymousBundle(x=ns["s"], y=ns["v2"])
        if label == "dict":
            return {"x": ns["t"], "y": ns["v2"]}          # dict shorthand: the library wraps it in an AnonymousBundle
        if label == "anonp":
            return h.AnonymousBundle(x=getattr(insts[other(inst)], "a"), y=ns["v2"])
        if label == "dictp":
            return {"x": getattr(insts[other(inst)], "a"), "y": ns["v2"]}
        if label == "pref":
            return getattr(insts[other(inst)], pn)
        if label == "prefbit":
            return getattr(insts[other(inst)], pn)[0]
        if label == "bref":
            return ns["b"].x
        raise ValueError(label)

    for seq, o in enumerate(hist, 1):
        inst, pn = o["port"].split(".")
        io = insts[inst]
        ev = {"tid": tid, "seq": seq, "op": o["op"], "port": o["port"], "val": o["val"], "vid": "none", "raised": False}
        try:
            if o["op"] in ("connect", "replace"):
                v = make(o["port"], o["val"])
                isdict = isinstance(v, dict)
                if not isdict:
                    keep.append(v)
                    if id(v) not in vids:
                        vids[id(v)] = f"v{len(vids) + 1}_{o['val']}"
                    ev["vid"] = vids[id(v)]
                else:
                    ev["vid"] = f"v{len(vids) + 1}_{o['val']}"
                if o["op"] == "replace":
                    io.replace(pn, v)
                else:
                    style = seq % 3
                    if style == 0:
                        io(**{pn: v})
                    elif style == 1:
                        setattr(io, pn, v)
                    else:
                        io.connect(pn, v)
                if isdict:
                    # the connected object is the AnonymousBundle the library made from the dict: identify it by what is now connected
                    made = io.conns.get(pn)
                    if made is not None and id(made) not in vids:
                        keep.append(made)
                        vids[id(made)] = ev["vid"]
            elif o["op"] == "disconnect":
                io.disconnect(pn)
            elif o["op"] == "read":
                keep.append(getattr(io, pn))
        except Exception as ex:
            ev["raised"] = True
            ev["exc"] = type(ex).__name__
        ev["obs"] = [[f"{n}.{p}", vids.get(id(c), "?")] for n, x in insts.items() for p, c in x.conns.items()]
        ev["back"] = [[vids[id(v)], sorted(f"{r.inst.name}.{r.portname}" for r in v._connected_ports if r.inst.name in insts)] for v in keep if id(v) in vids]
        # de-duplicate (the same object may have been handed over several times)
        seen = set()
        ev["back"] = [b for b in ev["back"] if not (b[0] in seen or seen.add(b[0]))]
        events.append(ev)
    fe = {"tid": tid, "fam": "C04", "D": final_design(final), "style": "history", "raised": False, "accepted": [], "P": conn.EMPTY_P, "exc": ""}
    try:
        pkg = h.to_proto(top)
        fe["P"] = proj_package(pkg, "Top")
        fe["accepted"] = ["to_proto"]
    except Exception as ex:
        fe["raised"] = True
        fe["exc"] = f"{type(ex).__name__}: {str(ex).strip().splitlines()[-1][:200] if str(ex).strip() else ''}"
    return events, fe


def mult_cases():
    """instance arrays made by multiplying ONE template instance several times, with re-connections of the arrays in between"""
    out = []
    for A0, Z0, A1, Z2, Z1 in itertools.product(["s1", "v2"], ["s2", "w2"], [None, "s2", "w2"], [None, "s1", "v2"], [None, "s1"]):
        out.append({"mult": True, "A0": A0, "Z0": Z0, "A1": A1, "Z2": Z2, "Z1": Z1})
    return out


def replay_mult(args):
    tid, c = args
    from ..hd import h
    cm = U.mod([U.sig("a", 1, True), U.sig("z", 1, True)])
    sigs = [U.sig("s1"), U.sig("s2"), U.sig("v2", 2), U.sig("w2", 2)]
    fin1 = [("a", Sig(c["A1"] or c["A0"])), ("z", Sig(c["Z1"] or c["Z0"]))]
    fin2 = [("a", Sig(c["A0"])), ("z", Sig(c["Z2"] or c["Z0"]))]
    D = U.design({"CM": cm, "Top": U.mod(sigs, [U.inst("arr1", "CM", fin1, kind="array", arr=2), U.inst("arr2", "CM", fin2, kind="array", arr=2)])})
    fe = {"tid": tid, "fam": "C04mult", "D": D, "style": "history", "raised": False, "accepted": [], "P": conn.EMPTY_P, "exc": ""}
    try:
        from ..design import Builder
        skel = json.loads(json.dumps(D))
        skel["mods"]["Top"]["insts"] = [i for i in skel["mods"]["Top"]["insts"] if i["n"] not in ("arr1", "arr2")]
        bld = Builder(h, skel, "proc")
        top = bld.build()
        ns = top.namespace
        t = bld.module("CM")(a=ns[c["A0"]], z=ns[c["Z0"]])          # the template instance, never added to the module itself
        arr1 = 2 * t
        top.add(arr1, name="arr1")
        if c["A1"]:
            arr1.a = ns[c["A1"]]
        arr2 = 2 * t
        top.add(arr2, name="arr2")
        if c["Z2"]:
            arr2.replace("z", ns[c["Z2"]])
        if c["Z1"]:
            arr1.connect("z", ns[c["Z1"]])
        pkg = h.to_proto(top)
        fe["P"] = proj_package(pkg, "Top")
        fe["accepted"] = ["to_proto"]
    except Exception as ex:
        fe["raised"] = True
        fe["exc"] = f"{type(ex).__name__}: {str(ex).strip().splitlines()[-1][:200] if str(ex).strip() else ''}"
    return [], fe


def feats(case):
    if case.get("mult"):
        return ["multiplied_arrays"] + [f"{k}_{'set' if case[k] else 'kept'}" for k in ("A1", "Z2", "Z1")]
    f = set()
    seen = {}
    for o in case["hist"]:
        f.add("op_" + o["op"])
        if o["op"] in ("connect", "replace"):
            if o["port"] in seen:
                f.add("replaced_" + seen[o["port"]])
                f.add("replacing_" + o["val"])
            seen[o["port"]] = o["val"]
        elif o["op"] == "disconnect" and o["port"] in seen:
            f.add("disconnected_" + seen.pop(o["port"]))
    return sorted(f)


def run(tier, seed, replay_file=None):
    o = Outcome(PID, tier, seed)
    o.rule = ("connection histories enumerated by TLC from MC_Build (exhaustive depth 2 quick / 3 thorough, simulate to depth 6) plus canonical suffix; "
              "non-trivial = some port is connected more than once or disconnected; distinct by history.")
    o.trusted_base = ["harness/props/c04.py (driver, projection of conns and back-reference sets)", "harness/design.py", "TLC"]
    if replay_file:
        cases = [json.loads(Path(replay_file).read_text())["case"]]
    else:
        cfg = "mc/MC_Build_2.cfg" if tier == "quick" else "mc/MC_Build_3.cfg"
        r = tlc.must_ok(tlc.run("mc/MC_Build.tla", cfg, workers=1, tag="c04gen"), cfg)
        o.add_mc("MC_Build", r, cfg)
        cases = list(r.cases)
        o.exhaustive = True
        n = 2500 if tier == "quick" else 20000
        r = tlc.run("mc/MC_Build.tla", "mc/MC_Build_6.cfg", workers=1, simulate=f"num={n}", depth=8, seed=seed + 3, tag="c04sim")
        if r.rc != 0:
            raise tlc.TlcError("MC_Build simulate failed: " + r.out[-1500:])
        uniq = {json.dumps(c, sort_keys=True): c for c in r.cases}
        cases += list(uniq.values())
        o.transitions += r.generated
        o.mc_runs.append({"spec": "MC_Build(simulate depth 6)", "behaviours": len(uniq)})
    nhist = len(cases)
    mcases = [] if replay_file else mult_cases()
    jobs = [("h", i, c) for i, c in enumerate(cases)] + [("m", nhist + k, c) for k, c in enumerate(mcases)]
    cases = cases + mcases
    v1, v2 = {}, {}
    nt = 0
    o.traces = len(cases)
    o.evaluations = 0
    # in chunks: a quarter of a million histories with their event traces and built designs do not fit in memory at once
    CH = 40000
    for lo in range(0, len(jobs), CH):
        part = jobs[lo:lo + CH]
        out = pool_map(replay, [(i, c) for k, i, c in part if k == "h"], chunksize=64) + pool_map(replay_mult, [(i, c) for k, i, c in part if k == "m"], chunksize=8)
        idx = [i for k, i, c in part if k == "h"] + [i for k, i, c in part if k == "m"]
        traces = {i: t for i, (t, _) in zip(idx, out)}
        finals = {i: f for i, (_, f) in zip(idx, out)}
        files = tlc.split_batches([traces[i] for i in idx if traces[i]], WORK / "c04", f"tr-{tier}", NPROC)
        res = tlc.validate_batches("trace/Trace_Build.tla", "trace/Trace_Build.cfg", files, jobs=NPROC, tag="c04val")
        for r in res:
            o.transitions += r.generated
            o.states += r.distinct
            for tid, ok, clause in r.verdicts:
                v1[tid] = (ok, clause)
        pv2, gen = conn.validate([finals[i] for i in idx], "c04fin")
        o.transitions += gen
        # (conn.validate numbers its verdicts by the `tid` each final carries)
        v2.update(pv2)
        for i in idx:
            if not traces[i]:
                v1.setdefault(i, (True, ""))          # (the multiplication histories have no step events: only their built design is judged)
        if any(i not in v1 or i not in v2 for i in idx):
            raise tlc.TlcError(f"C04: {len(idx)} histories in this chunk, step / final verdicts missing for {[i for i in idx if i not in v1 or i not in v2][:5]}")
        o.evaluations += sum(len(traces[i]) for i in idx) + len(idx)
        for i in idx:
            case = cases[i]
            fs = feats(case)
            if any(x.startswith(("replaced_", "disconnected_")) for x in fs):
                nt += 1
            for x in fs:
                o.cover[x] = o.cover.get(x, 0) + 1
            ok1, c1 = v1[i]
            ok2, c2 = v2[i]
            c2s = c2.split(":")[0]
            o.cover["final_" + c2s] = o.cover.get("final_" + c2s, 0) + 1
            if not ok1:
                o.violations.append(Violation(clause="step:" + c1, case=case, features=fs, detail=traces[i] if len(o.violations) < 20 else None))
            elif c2s == "rejected_valid":
                # the history ends in a complete valid mapping: "the elaborated design contains exactly the final mapping" presupposes that it elaborates
                o.violations.append(Violation(clause="final:valid_final_mapping_rejected", case=case, features=fs, detail={"exc": finals[i]["exc"]}))
            elif c2s in ("leaf_table", "observables", "partition"):
                o.violations.append(Violation(clause="final:" + c2s, case=case, features=fs, detail={"P": finals[i]["P"]} if len(o.violations) < 20 else None))
        del traces, finals, out
    o.distinct_nontrivial = nt
    vals = ["s", "bus0", "cat", "pref", "nc", "b", "anon", "dict", "anonp", "dictp", "prefbit", "bref"]
    o.required_cover = ["op_connect", "op_replace", "op_disconnect", "op_read", "final_ok_valid", "multiplied_arrays"] + ["replaced_" + v for v in vals] + ["replacing_" + v for v in vals]
    rnd = random.Random(seed)
    for i in rnd.sample(range(len(cases)), 2):
        o.samples.append({"history": cases[i].get("hist", cases[i]), "final": cases[i].get("final", ""), "step_verdict": v1[i], "final_verdict": v2[i]})
    return o
