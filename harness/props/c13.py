"""C13 - parameter values reach the package unchanged.

Every primitive (all parameter fields) and external modules with dict- and paramclass-typed parameters are instantiated with values of
every class (None, str, string-valued Enum, Literal, Decimal, int, float, Prefixed with each of the 21 prefixes, and Scalar fields
given numbers / numeric text / other text), exported, and the exported Instance.parameters are compared by TLC (Trace_Params over
api/Params.tla: variant, exact digits, prefix table, ideal-primitive names and parameter renaming, Scalar conversion).
"""
import json
import random
from decimal import Decimal
from enum import Enum
from pathlib import Path

from .. import tlc
from ..common import Outcome, Violation, WORK, NPROC, pool_map

PID = "C13"
PREFIX_EXPS = [-24, -21, -18, -15, -12, -9, -6, -3, -2, -1, 0, 1, 2, 3, 6, 9, 12, 15, 18, 21, 24]


def B(s: str):
    return list(s.encode("utf-8"))


def int_desc(i):
    return {"k": "int", "neg": i < 0, "d": [int(c) for c in reversed(str(abs(i)))] if i != 0 else [], "e": 0, "p": 0, "b": [], "hex": []}


def desc(kind, **kw):
    d = {"k": kind, "neg": False, "d": [], "e": 0, "p": 0, "b": [], "hex": []}
    d.update(kw)
    return d


def dec_fields(dec: Decimal):
    t = dec.as_tuple()
    return {"neg": bool(t.sign), "d": list(reversed(t.digits)), "e": t.exponent}


def describe(v):
    """descriptor of an actual (validated) parameter value"""
    from hdl21.prefix import Prefixed
    from hdl21.literal import Literal
    if v is None:
        return desc("none")
    if isinstance(v, bool):
        return int_desc(int(v))
    if isinstance(v, str):
        return desc("str", b=B(v))
    if isinstance(v, Enum):
        return desc("enum", b=B(v.value) if isinstance(v.value, str) else B(str(v.value)))
    if isinstance(v, Literal):
        return desc("literal", b=B(v.text))
    if isinstance(v, Prefixed):
        return desc("prefixed", p=v.prefix.value, **dec_fields(v.number))
    if isinstance(v, Decimal):
        return desc("decimal", b=B(str(v)))
    if isinstance(v, int):
        return int_desc(v)
    if isinstance(v, float):
        return desc("float", hex=B(v.hex()))
    return desc("other", b=B(repr(v)))


def out_value(pv):
    which = pv.WhichOneof("value")
    # (a parameter that is PRESENT in the package but carries no value is "empty" - not the same as a parameter left out)
    o = {"v": which or "empty", "neg": False, "d": [], "b": [], "hex": [], "prefix": "", "num": ""}
    if which == "literal":
        o.update(v="literal", b=B(pv.literal))
    elif which == "string_value":
        o.update(v="string", b=B(pv.string_value))
    elif which == "int64_value":
        i = pv.int64_value
        o.update(v="int64", neg=i < 0, d=[int(c) for c in reversed(str(abs(i)))] if i else [])
    elif which == "double_value":
        o.update(v="double", hex=B(float(pv.double_value).hex()))
    elif which == "prefixed":
        import vlsir
        px = pv.prefixed
        o.update(v="prefixed", prefix=vlsir.SIPrefix.Name(px.prefix))
        nw = px.WhichOneof("number")
        if nw == "int64_value":
            i = px.int64_value
            o.update(num="int64", neg=i < 0, d=[int(c) for c in reversed(str(abs(i)))] if i else [])
        elif nw == "string_value":
            o.update(num="string", b=B(px.string_value))
        else:
            o.update(num=str(nw))
    return o


class Color(Enum):
    RED = "red"
    BLUE = "deep blue"


def scalar_inputs(rnd, n):
    """(python value, descriptor) for Scalar-typed fields"""
    from hdl21.prefix import Prefixed, Prefix
    from hdl21.literal import Literal
    out = []
    # (texts that Python's Decimal accepts but that are not plain decimal literals - " 1", "1_000" - are left out: the property does not say
    #  whether they count as numeric)
    texts = ["5", "0", "-3", "1.5", "0.001", "1e-9", "1E+3", "2.50", "abc", "w/5", "3*x", "1e", "", "0x10", ".5", "5.", "-.5e-3", "+7"]
    for t in texts:
        out.append((t, desc("toscalar", b=B(t))))
    # (whole-valued floats beyond 2**53 whose binary value is not the decimal their repr shows: the Scalar is the repr's decimal, not int(v))
    for v in [5, 0, -7, 2 ** 40, 0.1, 1e-3, 2.5, 1e22, 1 / 3, 1e23, -1e23, 1.2345678901234568e18, 2.0 ** 70, 1e16, 123456789.0]:
        out.append((v, desc("toscalar", b=B(repr(v)))))
    for d in ["2.50", "1E+3", "0.000001", "1.234567890123456789012345", "123456789012345678901234", "0.999999999999999999999999", "-9007199254740993"]:   # (more digits than a float holds)
        out.append((Decimal(d), desc("toscalar", b=B(d))))
    out.append((Literal("a+b"), desc("literal", b=B("a+b"))))
    ms = ["1", "1000", "0.001", "1.5", "-2.50", "123456789012345678901234", "0.999999999999999999999999", "1E+3", "0",
          "1.0000000000000000000000000000001", "0.12345678901234567890123456789012345", str(2 ** 100), "1267650600228229401496703205376.5"]
    longs = [m for m in ms if len(m) > 28]
    for k, p in enumerate(PREFIX_EXPS):
        for m in rnd.sample(ms, n) + [longs[k % len(longs)]]:     # every prefix also gets a mantissa beyond the default 28-digit decimal context
            dm = Decimal(m)
            out.append((Prefixed(number=dm, prefix=Prefix.from_exp(p)), desc("prefixed", p=p, **dec_fields(dm))))
    return out


def gen_cases(tier, seed):
    from hdl21.primitives import Primitive
    import hdl21.primitives as prims
    from ..hd import h
    rnd = random.Random(seed)
    cases = []
    sc = scalar_inputs(rnd, 2 if tier == "quick" else 6)
    # (c) every primitive, every field
    seen = {}
    for n in dir(prims):
        x = getattr(prims, n)
        if isinstance(x, Primitive) and x.name not in seen:
            seen[x.name] = x
    for name, prim in sorted(seen.items()):
        for field, par in prim.paramtype.__params__.items():
            dt = str(par.dtype)
            if "Prefixed" in dt or "Literal" in dt:
                pool = sc if tier != "quick" else rnd.sample(sc, 14)
                for k, (v, d) in enumerate(pool):
                    cases.append({"target": name, "kind": "ideal" if prim.primtype.name == "IDEAL" else "physical", "set": {field: k}, "pool": "scalar"})
                # an explicit None given by keyword: the parameter is left out of the package (also where the field's default is not None)
                cases.append({"target": name, "kind": "ideal" if prim.primtype.name == "IDEAL" else "physical", "set": {field: 0}, "pool": "none"})
            elif "str" in dt:
                for k in range(5):
                    cases.append({"target": name, "kind": "ideal" if prim.primtype.name == "IDEAL" else "physical", "set": {field: k}, "pool": "str"})
    # (a)/(b) external modules
    for k in range(len(sc)):
        cases.append({"target": "ExtDict", "kind": "extdict", "set": {"x": k}, "pool": "scalar_raw"})
        cases.append({"target": "ExtClass", "kind": "extclass", "set": {"s": k}, "pool": "scalar"})
    for k in range(len(EQUAL_PAIRS)):
        for order in (0, 1):
            cases.append({"target": "IdealResistor", "kind": "ideal", "set": {"r": k}, "pool": "pair", "order": order, "which": 0})
            cases.append({"target": "IdealResistor", "kind": "ideal", "set": {"r": k}, "pool": "pair", "order": order, "which": 1})
            cases.append({"target": "ExtDict", "kind": "extdict", "set": {"x": k}, "pool": "pair", "order": order, "which": 0})
            cases.append({"target": "ExtDict", "kind": "extdict", "set": {"x": k}, "pool": "pair", "order": order, "which": 1})
        # ... and the judged instance is an ARRAY whose call equals, but is written differently from, that of a plain instance met before it
        for which in (0, 1):
            cases.append({"target": "IdealResistor", "kind": "ideal", "set": {"r": k}, "pool": "pair", "order": 0, "which": which, "arr": True})
            cases.append({"target": "ExtClass", "kind": "extclass", "set": {"s": k}, "pool": "pair", "order": 0, "which": which, "arr": True})
    for k in range(12):
        cases.append({"target": "ExtDict", "kind": "extdict", "set": {"x": k}, "pool": "misc"})
        cases.append({"target": "ExtClass", "kind": "extclass", "set": {"m": k}, "pool": "misc_class"})
    return cases, sc


# (mantissa, prefix exponent) pairs denoting equal values
EQUAL_PAIRS = [(("1", 3), ("1000", 0)), (("1000000", -3), ("1", 3)), (("2.50", 0), ("2.5", 0)), (("1E+3", 0), ("1000", 0)), (("0.001", 6), ("1", 3))]
MISC = None


def misc_values():
    from hdl21.literal import Literal
    return [(None, desc("none")), ("abc", desc("str", b=B("abc"))), ("a b=c", desc("str", b=B("a b=c"))), ("é", desc("str", b=B("é"))), ("", desc("str", b=B(""))),
            (Color.BLUE, desc("enum", b=B("deep blue"))), (Literal("x*2"), desc("literal", b=B("x*2"))), (Decimal("1.50"), desc("decimal", b=B("1.50"))),
            (7, int_desc(7)), (-2 ** 63, int_desc(-2 ** 63)), (2 ** 63 - 1, int_desc(2 ** 63 - 1)), (0.1, desc("float", hex=B((0.1).hex())))]


def run_case(args):
    tid, case, seed, tier = args
    from ..hd import h
    from typing import Optional
    rnd = random.Random(seed)
    sc = scalar_inputs(rnd, 2 if tier == "quick" else 6)
    misc = misc_values()
    ev = {"tid": tid, "target": case["target"], "kind": case["kind"], "raised": False, "refdomain": "", "refname": "", "inp": [], "out": [], "exc": "", "stage": "call"}
    try:
        (field, k), = case["set"].items()
        other = None
        if case["pool"] == "pair":
            from hdl21.prefix import Prefixed, Prefix
            pr = EQUAL_PAIRS[k]
            mk = lambda t: Prefixed(number=Decimal(t[0]), prefix=Prefix.from_exp(t[1]))
            mine, theirs = pr[case["which"]], pr[1 - case["which"]]
            v, d = mk(mine), desc("prefixed", p=mine[1], **dec_fields(Decimal(mine[0])))
            other = mk(theirs)
        elif case["pool"] in ("scalar", "scalar_raw"):
            v, d = sc[k]
        elif case["pool"] == "none":
            v, d = None, desc("none")
        elif case["pool"] == "str":
            v, d = [("mymodel", desc("str", b=B("mymodel"))), ("a b", desc("str", b=B("a b"))), (None, desc("none")),
                    # text that begins / ends with white space is text all the same
                    (" 'vdd / 2' ", desc("str", b=B(" 'vdd / 2' "))), ("\tm1\n", desc("str", b=B("\tm1\n")))][k]
        else:
            v, d = misc[k]
        m = h.Module(name="T")
        if case["kind"] in ("ideal", "physical"):
            prim = getattr(h.primitives, case["target"])
            kw = {field: v}
            for fn, par in prim.paramtype.__params__.items():
                if fn != field and par.default is h.default.Default and par.default_factory is h.default.Default:
                    kw[fn] = 1
            call = prim(**kw)
            ocall = prim(**{**kw, field: other}) if other is not None else None
            ports = [p.name for p in prim.port_list]
            params = call.params
        elif case["kind"] == "extdict":
            em = h.ExternalModule(name="ExtDict", port_list=[h.Port(name="a")], paramtype=dict, desc="x", domain="verif")
            if case["pool"] == "scalar_raw" and d["k"] == "toscalar":
                # a dict has no Scalar-typed fields: the raw python value is exported by its own type
                d = describe(v)
            call = em({field: v})
            ocall = em({field: other}) if other is not None else None
            ports = ["a"]
            params = None
        else:
            @h.paramclass
            class PX:
                s = h.Param(dtype=h.Scalar, desc="s", default=1)
                m = h.Param(dtype=object, desc="m", default=None)
            em = h.ExternalModule(name="ExtClass", port_list=[h.Port(name="a")], paramtype=PX, desc="x", domain="verif")
            call = em(**{field: v})
            ocall = em(**{field: other}) if other is not None else None
            ports = ["a"]
            params = call.params
        ev["stage"] = "export"
        m.s = h.Signal()
        if other is not None and case.get("arr"):
            m.j = ocall(**{p: m.s for p in ports})
            arr = h.InstanceArray(of=call, n=2)
            arr(**{p: m.s for p in ports})
            m.i = arr
        elif other is not None and case["kind"] != "extclass":
            # the equal-valued, differently written sibling is exported first or second
            if case["order"] == 0:
                m.j = ocall(**{p: m.s for p in ports})
                m.i = call(**{p: m.s for p in ports})
            else:
                m.i = call(**{p: m.s for p in ports})
                m.j = ocall(**{p: m.s for p in ports})
        else:
            m.i = call(**{p: m.s for p in ports})
        pkg = h.to_proto(m)
        pi = [x for x in pkg.modules[-1].instances if x.name in ("i", "i_0", "i_1")][-1]
        ev["refdomain"] = pi.module.external.domain
        ev["refname"] = pi.module.external.name
        ev["out"] = [{"name": p.name, "val": out_value(p.value)} for p in pi.parameters]
        inp = []
        if params is not None:
            import dataclasses
            for f in dataclasses.fields(params):
                inp.append({"name": f.name, "val": d if f.name == field else describe(getattr(params, f.name))})
        else:
            inp.append({"name": field, "val": d})
        ev["inp"] = inp
    except Exception as ex:
        ev["raised"] = True
        ev["exc"] = f"{type(ex).__name__}: {str(ex)[:160]}"
    return ev


def run(tier, seed, replay_file=None):
    o = Outcome(PID, tier, seed)
    o.rule = ("(every primitive x every parameter field x value class) + external modules with dict and paramclass parameters x every value class; "
              "value pools: 19 texts, ints, floats, Decimals, Literal, 21 prefixes x mantissas (seeded sample); non-trivial = the parameter is exported "
              "(not None); distinct by case.")
    o.trusted_base = ["harness/props/c13.py (value descriptors, reading of vlsir ParamValue oneofs, float.hex)", "TLC", "lib/BigNum.tla, api/Params.tla!ParseDec (self-checked by MC_Params)"]
    r = tlc.must_ok(tlc.run("mc/MC_Params.tla", workers=8, tag="c13mc"), "MC_Params")
    o.add_mc("MC_Params", r, "all texts up to 5 characters over {0,1,5,-,.,E}")
    if replay_file:
        cases = [json.loads(Path(replay_file).read_text())["case"]]
    else:
        cases, _ = gen_cases(tier, seed)
    evs = pool_map(run_case, [(i, c, seed, tier) for i, c in enumerate(cases)], chunksize=32)
    files = tlc.split_batches([[e] for e in evs], WORK / "c13", f"tr-{tier}", NPROC)
    res = tlc.validate_batches("trace/Trace_Params.tla", "trace/Trace_Params.cfg", files, jobs=NPROC, tag="c13val")
    verdicts = {}
    for rr in res:
        o.transitions += rr.generated
        for tid, ok, clause in rr.verdicts:
            verdicts[tid] = (ok, clause)
    if len(verdicts) != len(cases):
        raise tlc.TlcError(f"C13: {len(cases)} cases, {len(verdicts)} verdicts")
    o.traces = o.evaluations = len(cases)
    nt = 0
    for i, c in enumerate(cases):
        ok, clause = verdicts[i]
        ev = evs[i]
        o.cover["kind_" + c["kind"]] = o.cover.get("kind_" + c["kind"], 0) + 1
        o.cover["pool_" + c["pool"]] = o.cover.get("pool_" + c["pool"], 0) + 1
        for f in ev["inp"]:
            o.cover["in_" + f["val"]["k"]] = o.cover.get("in_" + f["val"]["k"], 0) + 1
        for f in ev["out"]:
            o.cover["out_" + f["val"]["v"]] = o.cover.get("out_" + f["val"]["v"], 0) + 1
        if ev["out"]:
            nt += 1
        if ev["raised"]:
            o.cover["refused_at_" + ev["stage"]] = o.cover.get("refused_at_" + ev["stage"], 0) + 1
        if not ok:
            feats = ["kind_" + c["kind"], "pool_" + c["pool"], "target_" + c["target"]]
            o.violations.append(Violation(clause=clause.split(":")[0], case=c, features=feats, detail={"inp": ev["inp"], "out": ev["out"], "exc": ev["exc"], "clause": clause}))
    o.distinct_nontrivial = nt
    o.required_cover = ["kind_ideal", "kind_physical", "kind_extdict", "kind_extclass", "pool_pair", "in_toscalar", "in_prefixed", "in_enum", "in_none", "in_int", "in_float",
                        "out_literal", "out_prefixed", "out_int64", "out_double"]
    rnd = random.Random(seed)
    for i in rnd.sample(range(len(cases)), 2):
        o.samples.append({"case": cases[i], "inp": evs[i]["inp"][:2], "out": evs[i]["out"][:2], "verdict": verdicts[i]})
    return o
