"""C02 - ill-formed designs never yield a package or a netlist.

Faulty designs are (a) every design of the micro-universes that Valid!Status classifies "fault" (width mismatches through
every connectable kind, out-of-range / empty indices, bundle mismatches, no-connects inside concats / anonymous bundles or
referenced elsewhere, ...) and (b) single-fault mutants planted by harness/faults.py at every site of valid designs.
TLC decides that the design really is faulty (so a mutant that happens to be legal raises no alarm); each is then run
through to_proto, netlist and elaborate on fresh copies: any entry point that returns is a violation.
"""
import json
import random
from pathlib import Path

from .. import tlc, universe, faults
from ..common import Outcome, Violation
from . import conn

PID = "C02"


def run(tier, seed, replay_file=None):
    o = Outcome(PID, tier, seed, level="fault_enumeration")
    o.rule = ("fault designs: universe designs classified 'fault' by Valid!Status + planted single-fault mutants (harness/faults.py) of valid "
              "universe designs at every site; non-trivial = TLC confirms the fault; distinct by (design, style).")
    o.trusted_base = ["harness/design.py", "harness/universe.py", "harness/faults.py (planting only; TLC decides faultiness)", "TLC"]
    rnd = random.Random(seed)
    if replay_file:
        rp = json.loads(Path(replay_file).read_text())
        designs = [("replay", rp["case"]["D"])]
    else:
        base = universe.all_designs(tier, seed)
        planted = faults.plant_all(base, tier, rnd)
        designs = base + planted
    nt = 0
    samples_pool = []
    CH = 12000          # chunked: the events of a thorough run (100k+ designs with their packages) do not fit in memory at once
    for c0 in range(0, len(designs), CH):
        jobs, evs, verdicts, gen = conn.run_designs(designs[c0:c0 + CH], "c02", styles=("proc",))
        o.transitions += gen
        o.traces += len(evs)
        o.evaluations += len(evs)
        for tid, (ok, clause) in verdicts.items():
            c = clause.split(":")[0]
            ev = evs[tid]
            if c == "ok_fault_rejected" or c.startswith("fault_not_rejected"):
                nt += 1
                rules = clause.split(":", 1)[1] if ":" in clause else ""
                for r in rules.strip("{}").replace('"', "").split(","):
                    r = r.strip()
                    if r:
                        o.cover["fault_" + r] = o.cover.get("fault_" + r, 0) + 1
                o.cover["fam_" + ev["fam"]] = o.cover.get("fam_" + ev["fam"], 0) + 1
                if c == "ok_fault_rejected" and len(samples_pool) < 200:
                    samples_pool.append({"family": ev["fam"], "fault": clause, "exception": ev["exc"],
                                         "top_instances": [i for i in ev["D"]["mods"][ev["D"]["top"]]["insts"] if not i["n"].startswith("pr_")][:4]})
            if c.startswith("fault_not_rejected"):
                rules = clause.split(":", 1)[1] if ":" in clause else ""
                feats = ["fault_" + r.strip() for r in rules.strip("{}").replace('"', "").split(",") if r.strip()] + ["fam_" + ev["fam"]]
                if "accepted_" + "_".join(ev["accepted"]) not in feats:
                    feats.append("accepted_" + "_".join(ev["accepted"]))
                o.violations.append(Violation(clause=c, case={"D": ev["D"], "style": ev["style"], "family": ev["fam"]}, features=feats,
                                              detail={"accepted": ev["accepted"]}))
        del jobs, evs, verdicts
    o.states += conn.validate.distinct
    o.distinct_nontrivial = nt
    o.level = "fault_enumeration"
    o.required_cover = ["fault_width_mismatch", "fault_missing_connection", "fault_connection_to_missing_port", "fault_ref_to_missing_port",
                        "fault_ref_to_missing_bundle_member", "fault_index_out_of_range", "fault_empty_slice", "fault_bundle_mismatch",
                        "fault_noconn_in_concat", "fault_noconn_in_anon_bundle", "fault_noconn_port_is_referenced", "fault_circular_instantiation",
                        "fault_foreign_or_orphan_signal", "fault_unnamed_module", "fault_module_name_clash"]
    o.samples = rnd.sample(samples_pool, min(3, len(samples_pool)))
    return o
