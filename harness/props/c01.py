"""C01 - elaboration and export preserve the connectivity the designer wrote.

Designs come from the exhaustive micro-universes of harness/universe.py (plus seeded random compositions), are built
with the real library in several construction styles, exported with to_proto, and TLC (Trace_Conn) decides:
Valid!Status(D) classifies the source design; for every non-faulty design that yields a package, the leaf table and the
partition of observable bits computed from the package (Package!PkgDenote, netlister reading) must equal those computed
from the source (Design!Denote).
"""
import json
import random
from pathlib import Path

from .. import tlc, universe
from ..common import Outcome, Violation
from . import conn

PID = "C01"
BAD = ("leaf_table", "observables", "partition", "leaf_parameters", "netlist_has_no_top", "netlist_top_ports", "netlist_arity", "netlist_partition",
       "spectre_netlist_has_no_top", "spectre_netlist_top_ports", "spectre_netlist_arity", "spectre_netlist_partition")


def term_kinds(D):
    ks = set()

    def walk(t):
        ks.add(t["k"])
        if t["k"] == "slice":
            ks.add("slice_of_" + t["of"]["k"])
            walk(t["of"])
        elif t["k"] == "cat":
            for p in t["parts"]:
                ks.add("cat_of_" + p["k"])
                walk(p)
        elif t["k"] == "anon":
            for m in t["mem"]:
                ks.add("anon_of_" + m["t"]["k"])
                walk(m["t"])
    for m in D["mods"].values():
        for i in m["insts"]:
            if i["n"].startswith("pr_"):
                continue
            ks.add("kind_" + i["kind"])
            for c in i["conns"]:
                walk(c["t"])
    return ks


def run(tier, seed, replay_file=None):
    o = Outcome(PID, tier, seed)
    o.rule = ("designs of the exhaustive micro-universes U_sig, U_pref, U_pref2, U_bundle, U_array, U_pair, U_hier (quick: the larger ones "
              "sampled with the seed) x construction styles; non-trivial = classified valid or lenient by Valid!Status and a package was "
              "returned; distinct by (design, style).")
    o.trusted_base = ["harness/design.py (builder: abstract design -> API calls; projector: vlsir Package -> JSON)", "harness/universe.py (enumeration only)", "TLC"]
    o.assumptions = ["the package is read as the vlsirtools netlisters read it: slice = bits bot..top, concat parts most-significant first - checked on this run "
                     "against the SPICE netlists the netlister actually wrote, read back by position (coverage key netlist_read_back)",
                     "a valid design that the library rejects (rejected_valid) is counted, not a C01 violation"]
    # every 3rd (thorough: every) exported design is also netlisted in SPICE format and the text read back by position (Netlist!NetlistDiff)
    conn.NETLIST_EVERY = 1 if (tier == "thorough" or replay_file) else 3
    if replay_file:
        rp = json.loads(Path(replay_file).read_text())
        designs = [("replay", rp["case"]["D"])]
        styles = (rp["case"]["style"],)
    else:
        designs = universe.all_designs(tier, seed)
        styles = ("proc", "class") if tier == "quick" else ("proc", "call", "assign", "class", "gen")
    if tier == "quick" and not replay_file:
        # every design procedurally; a seeded quarter of them also class-style
        rnd0 = random.Random(seed)
        extra = rnd0.sample(designs, len(designs) // 4)
        jobs, evs, verdicts, gen = conn.run_designs(designs, "c01", styles=("proc",), entries=())
        j2, e2, v2, g2 = conn.run_designs(extra, "c01b", styles=("class",), entries=())
        base = len(evs)
        for e in e2:
            e["tid"] += base
        evs += e2
        verdicts.update({t + base: v for t, v in v2.items()})
        gen += g2
    else:
        jobs, evs, verdicts, gen = conn.run_designs(designs, "c01", styles=styles, entries=())
    o.transitions += gen
    o.states += conn.validate.distinct
    o.traces = o.evaluations = len(evs)
    nt = 0
    for tid, (ok, clause) in verdicts.items():
        c = clause.split(":")[0]
        o.cover[c] = o.cover.get(c, 0) + 1
        ev = evs[tid]
        o.cover["fam_" + ev["fam"]] = o.cover.get("fam_" + ev["fam"], 0) + 1
        if c in ("ok_valid", "ok_lenient") and any("pv" in i for m in ev["D"]["mods"].values() for i in m["insts"]):
            o.cover["ok_leaf_with_parameters"] = o.cover.get("ok_leaf_with_parameters", 0) + 1
        if "N" in ev:
            o.cover["netlist_read_back"] = o.cover.get("netlist_read_back", 0) + 1
        if "N2" in ev:
            o.cover["spectre_netlist_read_back"] = o.cover.get("spectre_netlist_read_back", 0) + 1
        if c in ("ok_valid", "ok_lenient"):
            nt += 1
            for k in term_kinds(ev["D"]):
                o.cover["ok_" + k] = o.cover.get("ok_" + k, 0) + 1
        if c in BAD:
            o.violations.append(Violation(clause=c, case={"D": ev["D"], "style": ev["style"], "family": ev["fam"]},
                                          features=sorted(term_kinds(ev["D"])) + ["fam_" + ev["fam"]],
                                          detail={"P": ev["P"]} if len(o.violations) < 20 else None))
    o.distinct_nontrivial = nt
    o.exhaustive = tier == "thorough"
    o.required_cover = ["ok_valid", "ok_slice_of_cat", "ok_slice_of_slice", "ok_cat_of_slice", "ok_pref", "ok_nc", "ok_bund", "ok_bref", "ok_anon",
                        "ok_kind_array", "ok_kind_pair", "ok_slice_of_pref", "ok_anon_of_bref", "ok_anon_of_pref", "ok_anon_of_anon", "fam_U_hier", "netlist_read_back", "spectre_netlist_read_back", "ok_leaf_with_parameters"]
    rnd = random.Random(seed)
    oks = [t for t, (ok, c) in verdicts.items() if c.startswith("ok_valid")]
    for tid in rnd.sample(oks, min(2, len(oks))):
        ev = evs[tid]
        o.samples.append({"family": ev["fam"], "style": ev["style"],
                          "top_instances": [i for i in ev["D"]["mods"][ev["D"]["top"]]["insts"] if not i["n"].startswith("pr_")],
                          "package_top": ev["P"]["mods"].get(ev["P"]["top"], {}).get("insts", [])[:3], "verdict": verdicts[tid][1]})
    return o
