"""C11 - exported packages survive a round trip through from_proto.

Corpus: the packages of C06 (valid universe designs, examples, built-in generators) plus the primitive / external-module parameter space
of C13.  Each package P is imported with from_proto, the imported modules are exported again (P2); both are projected to a uniform JSON
shape and TLC (Trace_RoundTrip over api/RoundTrip.tla) compares them component by component and names the first difference.
"""
import json
import random
from pathlib import Path

from .. import tlc, universe
from ..common import Outcome, Violation, WORK, NPROC, pool_map
from ..design import build, proj_target
from .c13 import out_value

PID = "C11"
DIRS = {0: "INPUT", 1: "OUTPUT", 2: "INOUT", 3: "NONE"}


def proj_full(pkg):
    mods = []
    for m in pkg.modules:
        insts = []
        for i in m.instances:
            w = i.module.WhichOneof("to")
            ref = ["local", "", i.module.local] if w == "local" else ["external", i.module.external.domain, i.module.external.name]
            insts.append({"name": i.name, "ref": ref, "params": [{"name": p.name, "val": out_value(p.value)} for p in i.parameters],
                          "conns": [[c.portname, proj_target(c.target)] for c in i.connections]})
        mods.append({"name": m.name, "sigs": [[s.name, s.width] for s in m.signals], "ports": [[p.signal, DIRS.get(p.direction, "?")] for p in m.ports],
                     "insts": insts, "literals": list(m.literals)})
    exts = [{"name": e.name.name, "domain": e.name.domain, "spicetype": int(e.spicetype), "sigs": [[s.name, s.width] for s in e.signals],
             "ports": [[p.signal, DIRS.get(p.direction, "?")] for p in e.ports]} for e in pkg.ext_modules]
    return {"domain": pkg.domain, "mods": mods, "exts": exts}


EMPTY = {"domain": "", "mods": [], "exts": []}


def roundtrip(h, pkg, src):
    from hdl21.proto.importing import ProtoImporter
    ev = {"src": src, "P": proj_full(pkg), "P2": EMPTY, "import_raised": False, "export_raised": False, "exc": ""}
    try:
        imp = ProtoImporter(pkg)
        imp.import_()
        # the imported TOP-LEVEL modules: those no instance of the package refers to, in package order
        used = {i.module.local for m in pkg.modules for i in m.instances if i.module.WhichOneof("to") == "local"}
        mods = [v for (k, v), pm in zip(imp.modules.items(), pkg.modules) if pm.name not in used]
        if len(imp.modules) != len(pkg.modules):
            mods = list(imp.modules.values())
    except Exception as ex:
        ev["import_raised"] = True
        ev["exc"] = f"{type(ex).__name__}: {str(ex)[:200]}"
        return ev
    try:
        p2 = h.to_proto(mods, domain=pkg.domain) if mods else h.to_proto([], domain=pkg.domain)
        ev["P2"] = proj_full(p2)
    except Exception as ex:
        ev["export_raised"] = True
        ev["exc"] = f"{type(ex).__name__}: {str(ex)[:200]}"
    return ev


def from_design(args):
    fam, D = args
    from ..hd import h
    try:
        pkg = h.to_proto(build(h, D, "proc"))
    except Exception:
        return []
    return [roundtrip(h, pkg, fam)]


def from_example(name):
    from ..hd import h
    from . import c06
    from hdl21 import _verif
    import importlib, os, io, contextlib, sys
    got = []
    _verif.set_sink(lambda ev, f: got.append(f["pkg"]) if ev == "export" else None)
    wd = WORK / "c11ex" / name
    wd.mkdir(parents=True, exist_ok=True)
    cwd = os.getcwd()
    os.chdir(wd)
    try:
        from ..hd import REPO
        if REPO not in sys.path:
            sys.path.insert(0, REPO)
        with contextlib.redirect_stdout(io.StringIO()):
            importlib.import_module(f"examples.{name}").main()
    except Exception:
        pass
    finally:
        os.chdir(cwd)
        _verif.set_sink(None)
    return [roundtrip(h, p, "example:" + name) for p in got]


def from_params(args):
    """one module holding instances of primitives / external modules with parameter values of every class"""
    k, seed, tier = args
    from ..hd import h
    from . import c13
    import vlsirtools
    rnd = random.Random(seed * 1000 + k)
    sc = c13.scalar_inputs(rnd, 2)
    m = h.Module(name=f"P{k}")
    m.s = h.Signal()
    prims = ["IdealResistor", "IdealCapacitor", "DcVoltageSource", "PulseVoltageSource", "SineVoltageSource", "VoltageControlledVoltageSource",
             "Mos", "PhysicalResistor", "ThreeTerminalCapacitor", "Bipolar", "Diode", "CurrentSource", "IdealInductor"]
    n = 0
    for pn in rnd.sample(prims, 5):
        prim = getattr(h.primitives, pn)
        kw = {}
        for fn, par in prim.paramtype.__params__.items():
            if "Prefixed" in str(par.dtype) and (rnd.random() < 0.7 or (par.default is h.default.Default and par.default_factory is h.default.Default)):
                v = rnd.choice(sc)[0]
                kw[fn] = v
            if ("Optional" in str(par.dtype) or "None" in str(par.dtype)) and rnd.random() < 0.25:
                kw[fn] = None          # an explicit None, also where the default is a number: not exported, and must come back as None
        try:
            call = prim(**kw)
        except Exception:
            continue
        m.add(call(**{p.name: m.s for p in prim.port_list}), name=f"i{n}")
        n += 1
    st = rnd.choice(list(vlsirtools.SpiceType))
    em = h.ExternalModule(name=f"Ext{k}", port_list=[h.Input(name="a"), h.Output(name="b", width=2), h.Inout(name="c"), h.Port(name="d")], paramtype=dict,
                          desc="x", domain=rnd.choice(["verif", "", "other.dom"]), spicetype=st)
    params = {f"p{j}": rnd.choice(c13.misc_values()[1:] + sc)[0] for j in range(3)}
    m.w2 = h.Signal(width=2)
    m.add(em(params)(a=m.s, b=m.w2, c=m.s, d=m.w2[0]), name="x")
    m.literals.append(h.Literal("lit one"))
    m.literals.append(h.Literal("lit two"))
    try:
        pkg = h.to_proto(m)
    except Exception:
        return []
    return [roundtrip(h, pkg, "params")]


def from_pairs(k):
    """instances of one target whose parameters are equal in value but written differently, side by side in one module"""
    from ..hd import h
    from . import c13
    from hdl21.prefix import Prefixed, Prefix
    from decimal import Decimal
    m = h.Module(name=f"Pairs{k}")
    m.s = h.Signal()
    mk = lambda t: Prefixed(number=Decimal(t[0]), prefix=Prefix.from_exp(t[1]))
    em = h.ExternalModule(name="ExtP", port_list=[h.Port(name="a")], paramtype=dict, desc="x", domain="verif")
    n = 0
    pairs = c13.EQUAL_PAIRS if k % 2 == 0 else list(reversed(c13.EQUAL_PAIRS))
    for a, b in pairs:
        for v in ((a, b) if k % 4 < 2 else (b, a)):
            m.add(h.primitives.IdealResistor(r=mk(v))(p=m.s, n=m.s), name=f"r{n}")
            m.add(em({"x": mk(v), "y": 2 if n % 2 else 2.0})(a=m.s), name=f"e{n}")
            n += 1
    return [roundtrip(h, h.to_proto(m), "pairs")]


def from_bare(k):
    """modules defined outside any Python module (exec'd source, as in a notebook cell): exported under bare, path-less names"""
    from ..hd import h
    src = (
        "leaf = h.Module(name='BareLeaf%d')\n"
        "leaf.p = h.Port()\n"
        "leaf.r = h.primitives.IdealResistor(r=1)(p=leaf.p, n=leaf.p)\n"
        "top = h.Module(name='BareTop%d')\n"
        "top.s = h.Signal()\n"
        "top.i = leaf(p=top.s)\n"
    ) % (k, k)
    ns = {"h": h}
    exec(compile(src, "<cell>", "exec"), ns)
    return [roundtrip(h, h.to_proto(ns["top"]), "bare")]


def from_history(k):
    """a history of imports in one process: two packages declare the same external module name (same domain) differently - port order, widths,
    spice type, parameters; each round trip must give back ITS package whatever was imported before"""
    from ..hd import h
    import vlsirtools
    sts = list(vlsirtools.SpiceType)
    decls = [([("d", 1), ("g", 1), ("s", 1), ("b", 1)], sts[0]), ([("g", 1), ("d", 1), ("s", 1), ("b", 1)], sts[min(1, len(sts) - 1)]),
             ([("d", 2), ("g", 1), ("s", 1), ("b", 1)], sts[0]), ([("d", 1), ("g", 1), ("s", 1)], sts[min(2, len(sts) - 1)])]
    order = [decls[(k + j) % len(decls)] for j in range(len(decls))]
    out = []
    for j, (ports, st) in enumerate(order):
        em = h.ExternalModule(name="nfet", port_list=[h.Port(name=n, width=w) for n, w in ports], desc="x", domain="somepdk", spicetype=st, paramtype=dict)
        m = h.Module(name=f"Hist{k}_{j}")
        m.s = h.Signal()
        m.w2 = h.Signal(width=2)
        m.add(em({"w": 1 + j})(**{n: (m.s if w == 1 else m.w2) for n, w in ports}), name="x")
        out.append(roundtrip(h, h.to_proto(m), "history"))
    return out


def from_suite(args):
    """a package exported while the repository's own test-suite ran (harness/suite.py)"""
    src, raw = args
    from ..hd import h
    import vlsir.circuit_pb2 as vckt
    pkg = vckt.Package()
    pkg.ParseFromString(raw)
    return [roundtrip(h, pkg, src)]


def run(tier, seed, replay_file=None):
    o = Outcome(PID, tier, seed)
    o.rule = ("packages: valid universe designs (quick: seeded sample), the examples' exported packages, built-in generators, and modules full of "
              "primitive / external-module instances with parameter values of every class, literals, all spice types; non-trivial = has an instance; "
              "distinct by content.")
    o.trusted_base = ["harness/props/c11.py (uniform projection of both packages)", "TLC"]
    rnd = random.Random(seed)
    designs = universe.all_designs(tier, seed)
    if tier == "quick":
        designs = rnd.sample(designs, min(1200, len(designs)))
    evs = [e for out in pool_map(from_design, designs, chunksize=32) for e in out]
    for out in pool_map(from_example, ["ro", "rdac", "encoder", "diff_ota", "idac", "bundles"], jobs=6):
        evs += out
    for out in pool_map(from_params, [(k, seed, tier) for k in range(300 if tier == "quick" else 3000)], chunksize=16):
        evs += out
    for out in pool_map(from_pairs, list(range(8))):
        evs += out
    for out in pool_map(from_bare, list(range(2))):
        evs += out
    for out in pool_map(from_history, list(range(4))):
        evs += out
    from .. import suite
    sjobs = []
    for r in suite.collect():
        if r["rc"] not in (0, 5):
            raise tlc.TlcError(f"test-suite under hooks did not pass: {r['file']}: {r['summary']}")
        sjobs += [(f"suite:{r['file']}::{t.split('::')[-1]}", raw) for t, raw in r["pkgs"]]
    for out in pool_map(from_suite, sjobs, chunksize=8):
        evs += out
    o.cover["suite_packages"] = len(sjobs)
    for i, e in enumerate(evs):
        e["tid"] = i
    files = tlc.split_batches([[e] for e in evs], WORK / "c11", f"tr-{tier}", NPROC)
    res = tlc.validate_batches("trace/Trace_RoundTrip.tla", "trace/Trace_RoundTrip.cfg", files, jobs=NPROC, tag="c11val")
    verdicts = {}
    for r in res:
        o.transitions += r.generated
        o.states += r.distinct
        for tid, ok, clause in r.verdicts:
            verdicts[tid] = (ok, clause)
    if len(verdicts) != len(evs):
        raise tlc.TlcError(f"C11: {len(evs)} packages, {len(verdicts)} verdicts")
    o.traces = o.evaluations = len(evs)
    seen = set()
    for i, e in enumerate(evs):
        src = e["src"].split(":")[0]
        o.cover["src_" + src] = o.cover.get("src_" + src, 0) + 1
        if any(m["insts"] for m in e["P"]["mods"]):
            seen.add(json.dumps(e["P"], sort_keys=True))
        for m in e["P"]["mods"]:
            for inst in m["insts"]:
                for c in inst["conns"]:
                    o.cover["conn_" + c[1]["k"]] = o.cover.get("conn_" + c[1]["k"], 0) + 1
                for p in inst["params"]:
                    o.cover["param_" + p["val"]["v"]] = o.cover.get("param_" + p["val"]["v"], 0) + 1
        ok, clause = verdicts[i]
        if not ok:
            o.violations.append(Violation(clause=clause.split(":")[0], case={"source": e["src"], "P": e["P"]}, features=["src_" + src, clause.split(":")[0]] + (["source:" + e["src"]] if src == "suite" else []),
                                          detail={"clause": clause, "exc": e["exc"], "P2": e["P2"]} if len(o.violations) < 12 else clause))
    o.distinct_nontrivial = len(seen)
    o.required_cover = ["src_history", "src_pairs", "src_bare", "src_params", "src_example", "src_U_sig", "conn_slice", "conn_cat", "conn_sig", "param_prefixed", "param_literal", "param_int64", "param_double"]
    for i in rnd.sample(range(len(evs)), 2):
        o.samples.append({"source": evs[i]["src"], "modules": [m["name"] for m in evs[i]["P"]["mods"]], "verdict": verdicts[i]})
    return o
