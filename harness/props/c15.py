"""C15 - PDK compilation swaps device targets and nothing else.

(a) Registry: TLC enumerates every history of register / set_default / compile(default | by name | by module) over three PDK modules
    (MC_Pdk); each is replayed in a fresh process with stand-in PDK modules; Trace_PdkReg checks which PDK each compile reached.
(b,c) For the sample, Sky130, GF180 and ASAP7 PDKs: every entry of every device table (read from the running package) is requested by
    model name, and every MOS type/family/threshold triple by parameters, on an instance placed in a two-level hierarchy with a
    shared sub-module and instances that must stay untouched.  The design is exported before compiling, after compiling once and
    twice; TLC (Trace_Pdk over api/Pdk.tla) decides the contract: hierarchy, instance names and every connection unchanged, only
    technology-mapped instances re-targeted, to a device that satisfies the request and has the generic primitive's terminals,
    compile idempotent, the compiled package well-formed (Package!PkgFaults) and netlistable; a request no device satisfies must be
    refused with a descriptive error.  A sample of the Sky130 / GF180 logic-cell libraries is instantiated, exported and netlisted.
"""
import io
import json
import os
import random
import types
from pathlib import Path

from .. import tlc
from ..common import Outcome, Violation, WORK, NPROC, pool_map
from ..design import proj_package
from .c11 import proj_full

PID = "C15"
EMPTYF = {"domain": "", "mods": [], "exts": []}
EMPTYW = {"mods": {}, "order": [], "leaves": {}, "exts": [], "top": ""}

PRIM_PORTS = {"Mos": ["d", "g", "s", "b"], "PhysicalResistor": ["p", "n"], "ThreeTerminalResistor": ["p", "n", "b"], "PhysicalCapacitor": ["p", "n"],
              "ThreeTerminalCapacitor": ["p", "n", "b"], "Diode": ["p", "n"], "Bipolar": ["c", "b", "e"]}


# ------------------------------------------------------------------------------------------------ (a) registry
def replay_registry(args):
    tid, hist = args
    from ..hd import h
    import hdl21.pdk as hp
    called = []

    def mk(name):
        m = types.ModuleType(name)

        def compile(src: h.Elaboratables) -> None:
            called.append(name)
        m.compile = compile
        return m
    mods = {n: mk(n) for n in ("pa", "pb", "pc")}
    events = []
    for seq, o in enumerate(hist, 1):
        ev = {"tid": tid, "seq": seq, "op": o["op"], "how": o["how"], "n": o["n"], "res": ""}
        called.clear()
        try:
            if o["op"] == "register":
                hp.register(mods[o["n"]])
                ev["res"] = "ok"
            elif o["op"] == "set_default":
                hp.set_default(o["n"] if o["how"] == "name" else mods[o["n"]])
                ev["res"] = "ok"
            else:
                src = h.Module(name="X")
                if o["how"] == "none":
                    hp.compile(src)
                elif o["how"] == "name":
                    hp.compile(src, pdk=o["n"])
                else:
                    hp.compile(src, pdk=mods[o["n"]])
                ev["res"] = called[0] if len(called) == 1 else f"compiled_{len(called)}_times"
        except Exception as ex:
            ev["res"] = "raise"
            ev["exc"] = type(ex).__name__
        events.append(ev)
    return events


# ------------------------------------------------------------------------------------------------ (b, c) device tables
def enum_name(x):
    return x.name if hasattr(x, "name") and not isinstance(x, str) else str(x)


def read_tables(pdkname):
    """device tables of a PDK, normalised: [kind, key, tp, fam, vth, dev, ports]"""
    from ..hd import h
    from hdl21.primitives import MosType, MosFamily, MosVth
    out = []
    if pdkname in ("sky130", "gf180"):
        if pdkname == "sky130":
            from sky130_hdl21.primitives import prim_dicts as pd
        else:
            from gf180_hdl21.primitives import prim_dicts as pd
        for k, v in pd.xtors.items():
            tp = next((enum_name(x) for x in k if isinstance(x, MosType)), "ANY")
            fam = next((enum_name(x) for x in k if isinstance(x, MosFamily)), "ANY")
            vth = next((enum_name(x) for x in k if isinstance(x, MosVth)), "ANY")
            out.append({"kind": "mos", "key": k[0], "tp": tp, "fam": fam, "vth": vth, "dev": v.name, "ports": [p.name for p in v.port_list]})
        for kind, d in (("res", pd.ress), ("cap", pd.caps), ("diode", pd.diodes), ("bjt", pd.bjts)):
            for k, v in d.items():
                out.append({"kind": kind, "key": k, "tp": "ANY", "fam": "ANY", "vth": "ANY", "dev": v.name, "ports": [p.name for p in v.port_list]})
    elif pdkname == "asap7":
        import asap7_hdl21.pdk as ap
        for (tp, vt), v in ap._mos_modules.items():
            out.append({"kind": "mos", "key": v.name, "tp": enum_name(tp), "fam": "ANY", "vth": enum_name(vt), "dev": v.name, "ports": [p.name for p in v.port_list]})
    elif pdkname == "sample":
        out.append({"kind": "mos", "key": "nmos", "tp": "NMOS", "fam": "ANY", "vth": "ANY", "dev": "nmos", "ports": ["d", "g", "s", "b"]})
        out.append({"kind": "mos", "key": "pmos", "tp": "PMOS", "fam": "ANY", "vth": "ANY", "dev": "pmos", "ports": ["d", "g", "s", "b"]})
    return out


PDKS = {
    "sample": dict(module="hdl21.pdk.sample_pdk.pdk", domain="sample_pdk", mapped=["Mos"], bymodel=False),
    "sky130": dict(module="sky130_hdl21.pdk_logic", domain="sky130", mapped=list(PRIM_PORTS), bymodel=True),
    "gf180": dict(module="gf180_hdl21.pdk_logic", domain="gf180", mapped=list(PRIM_PORTS), bymodel=True),
    "asap7": dict(module="asap7_hdl21.pdk", domain="asap7", mapped=["Mos"], bymodel=False),
}


def gen_cases(tier, seed):
    rnd = random.Random(seed)
    cases = []
    for pdk, info in PDKS.items():
        table = read_tables(pdk)
        # every MOS (type, family, threshold) triple, sizes given / defaulted, multipliers
        for tp in ("NMOS", "PMOS"):
            for fam in ("CORE", "IO", "NONE", "LP", "HP", "RF"):
                for vth in ("STD", "LOW", "HIGH", "ULTRA_LOW", "ULTRA_HIGH", "ZERO", "NATIVE"):
                    sized = rnd.choice(SIZINGS)
                    cases.append({"pdk": pdk, "req": {"prim": "Mos", "by": "params", "model": "", "tp": tp, "fam": fam, "vth": vth, "sized": sized, "mult": rnd.choice([None, 2]),
                                                      "nf": rnd.choice([None, 3])}})
        if info["bymodel"]:
            for e in table:
                prims = {"mos": ["Mos"], "res": ["PhysicalResistor", "ThreeTerminalResistor"], "cap": ["PhysicalCapacitor", "ThreeTerminalCapacitor"],
                         "diode": ["Diode"], "bjt": ["Bipolar"]}[e["kind"]]
                for prim in prims:
                    for sized in SIZINGS:
                        cases.append({"pdk": pdk, "req": {"prim": prim, "by": "model", "model": e["key"], "tp": "NMOS", "fam": "CORE", "vth": "STD", "sized": sized,
                                                          "mult": rnd.choice([None, 2]), "nf": None}})
            # names no table entry carries: an unrelated one, and fragments / near misses of the real ones
            keys = {}
            for e in table:
                keys.setdefault(e["kind"], set()).add(e["key"])
            firstprim = {"mos": "Mos", "res": "PhysicalResistor", "cap": "PhysicalCapacitor", "diode": "Diode", "bjt": "Bipolar"}
            for kind, ks in sorted(keys.items()):
                bad = {"no_such_model", ""}
                for key in sorted(ks)[:: max(1, len(ks) // 4)]:
                    bad |= {key[:-1], key[1:], key[: len(key) // 2], key + "_", key.upper() if key.upper() != key else key.lower(), key.split("_")[0]}
                allkeys = set().union(*keys.values())
                for m in sorted(bad - allkeys):
                    cases.append({"pdk": pdk, "req": {"prim": firstprim[kind], "by": "model", "model": m, "tp": "NMOS", "fam": "CORE", "vth": "STD", "sized": "wl", "mult": None, "nf": None}})
    if tier == "quick":
        keep = [c for c in cases if c["req"]["by"] == "model"]
        rest = [c for c in cases if c["req"]["by"] != "model"]
        cases = keep + rnd.sample(rest, min(160, len(rest)))
    others = {"sample": "sky130", "sky130": "sample", "gf180": "sky130", "asap7": "sample"}
    for k, c in enumerate(cases):
        c["how"] = ["direct", "default", "name", "module"][k % 4]
        # every third case: a design with the same request is first compiled to ANOTHER PDK in the same process (its outcome is ignored)
        c["pre"] = others[c["pdk"]] if k % 3 == 1 else ""
        # every fourth by-model case: the SAME PDK first compiles a plain request by parameters (type / family / threshold left at their defaults, which
        # are also what the by-model request carries) - selection by model name may not depend on it
        c["pre_same"] = c["req"]["by"] == "model" and k % 4 == 2
        # every fifth case: compiled in ONE call together with another design whose sub-module has the same NAME (a different module)
        c["shadow"] = k % 5 == 3
        # every seventh case: the design is first walked by a read-only HierarchyWalker (a census of its instances), then compiled
        c["census"] = k % 7 == 5
    return cases


SIZINGS = ("wl", "w", "l", "")
GIVEN = {"w": "3", "l": "7"}        # in microns; different, so that a swap shows


def make_prim_call(h, req):
    from hdl21.primitives import MosType, MosFamily, MosVth
    from hdl21.prefix import µ
    prim = getattr(h.primitives, req["prim"])
    kw = {}
    if req["by"] == "model":
        kw["model"] = req["model"]
    elif req["prim"] == "Mos":
        kw.update(tp=MosType[req["tp"]], family=MosFamily[req["fam"]], vth=MosVth[req["vth"]])
    fields = set(getattr(prim.Params, "__dataclass_fields__", {}))
    for r in ("w", "l"):
        if r in req["sized"] and r in fields:
            kw[r] = int(GIVEN[r]) * µ
    for r in ("mult", "nf"):
        if req.get(r) and r in fields:
            # (the capacitor primitives declare their multiplier as text)
            kw[r] = str(req[r]) if "str" in str(prim.Params.__dataclass_fields__[r].type) and "Scalar" not in str(prim.Params.__dataclass_fields__[r].type) else req[r]
    return prim(**kw)


def canon(x):
    """exact value of a parameter as a canonical decimal string (projection only: equality is decided by TLC)"""
    from decimal import Decimal, Context
    from hdl21.prefix import Prefixed
    ctx = Context(prec=90)
    if x is None:
        return ""
    if isinstance(x, Prefixed):
        d = ctx.multiply(Decimal(str(x.number)), ctx.power(Decimal(10), Decimal(int(x.prefix.value))))
    elif isinstance(x, bool):
        return str(x)
    elif isinstance(x, int):
        d = Decimal(x)
    elif isinstance(x, float):
        d = Decimal(repr(x))
    elif isinstance(x, Decimal):
        d = x
    else:
        try:
            d = Decimal(str(x))
        except Exception:
            return "text:" + str(x)
    if d == 0:
        return "0"
    t = d.normalize(ctx).as_tuple()
    return ("-" if t.sign else "") + "".join(map(str, t.digits)) + "e" + str(t.exponent)


def canon_proto(pv):
    import vlsir
    from decimal import Decimal
    from hdl21.prefix import Prefix, Prefixed
    which = pv.WhichOneof("value")
    if which == "int64_value":
        return canon(pv.int64_value)
    if which == "double_value":
        return canon(pv.double_value)
    if which in ("literal", "string_value"):
        return canon(getattr(pv, which))
    if which == "prefixed":
        px = pv.prefixed
        nw = px.WhichOneof("number")
        num = Decimal(px.int64_value) if nw == "int64_value" else Decimal(px.string_value) if nw == "string_value" else Decimal(repr(px.double_value))
        exp = {"YOCTO": -24, "ZEPTO": -21, "ATTO": -18, "FEMTO": -15, "PICO": -12, "NANO": -9, "MICRO": -6, "MILLI": -3, "CENTI": -2, "DECI": -1, "DECA": 1, "HECTO": 2,
               "KILO": 3, "MEGA": 6, "GIGA": 9, "TERA": 12, "PETA": 15, "EXA": 18, "ZETTA": 21, "YOTTA": 24, "UNIT": 0}[vlsir.SIPrefix.Name(px.prefix)]
        return canon(num * (Decimal(10) ** exp))
    return ""


# device parameter that carries each sizing role, by the device's parameter class
ROLEMAP = {
    "SamplePdkMosParams": {"w": "w", "l": "l", "mult": "m", "nf": "nf"},
    "Sky130MosParams": {"w": "w", "l": "l", "mult": "mult", "nf": "nf"},
    "Sky130Mos20VParams": {"w": "w", "l": "l", "mult": "m"},
    "Sky130GenResParams": {"w": "w", "l": "l"},
    "Sky130PrecResParams": {},              # fixed-length devices
    "Sky130MimParams": {"w": "w", "l": "l", "mult": "mf"},
    "Sky130VarParams": {"w": "w", "l": "l", "mult": "vm"},
    "Sky130BipolarParams": {"mult": "m"},
    "GF180MosParams": {"w": "w", "l": "l", "mult": "m", "nf": "nf"},
    "GF180ResParams": {"w": "r_width", "l": "r_length"},
    "GF180CapParams": {"w": "c_width", "l": "c_length"},
    "GF180BipolarParams": {"mult": "m"},
}
NOSIZE = {"roles": [], "given": {"w": "", "l": "", "mult": "", "nf": ""}, "dflt": {"w": "", "l": "", "mult": "", "nf": ""}, "got": {"w": "", "l": "", "mult": "", "nf": ""}}


def default_sizes(pdk, dev):
    """(w, l) defaults of a device from the PDK's own tables, "" where it has none"""
    out = {"w": "", "l": ""}
    if pdk == "sample":
        from hdl21.pdk.sample_pdk.pdk import SamplePdkMosParams
        d = SamplePdkMosParams()
        return {"w": canon(d.w), "l": canon(d.l)}
    if pdk == "sky130":
        from sky130_hdl21.primitives import prim_dicts as pd
        tabs = [pd.default_xtor_size, pd.default_gen_res_size, pd.default_cap_sizes]
    elif pdk == "gf180":
        from gf180_hdl21.primitives import prim_dicts as pd
        tabs = [pd.default_xtor_size, pd.default_res_size]
    else:
        return out
    for t in tabs:
        if dev in t:
            return {"w": canon(t[dev][0]), "l": canon(t[dev][1])}
    return out


def size_record(pdk, req, inst, pinst):
    """sizing observation for one compiled instance: given values, the PDK's defaults, what the exported device call carries"""
    from decimal import Decimal
    of = inst.of
    mod = getattr(of, "module", None)
    pt = getattr(getattr(mod, "paramtype", None), "__name__", "")
    generic = {"w": "w", "l": "l", "mult": "mult", "nf": "nf"}
    rm = ROLEMAP.get(pt, generic if pdk == "asap7" else {})
    rec = json.loads(json.dumps(NOSIZE))
    prim = req["prim"]
    from ..hd import h
    fields = set(getattr(getattr(h.primitives, prim).Params, "__dataclass_fields__", {}))
    rec["roles"] = sorted(r for r in rm if r in fields)
    for r in ("w", "l"):
        if r in req["sized"] and r in fields:
            rec["given"][r] = canon(Decimal(GIVEN[r]) * (Decimal(10) ** -6))
    for r in ("mult", "nf"):
        if req.get(r) and r in fields:
            rec["given"][r] = canon(req[r])
    d = default_sizes(pdk, getattr(mod, "name", ""))
    rec["dflt"].update(d)
    # (no PDK table states a default multiplier or finger count: for those roles only given values are checked)
    got = {p.name: canon_proto(p.value) for p in pinst.parameters}
    for r, pn in rm.items():
        rec["got"][r] = got.get(pn, "")
    return rec


def has_mult(h, prim):
    return "mult" in getattr(getattr(h.primitives, prim).Params, "__dataclass_fields__", {})


def build_design(h, req, tag):
    """Top -> (Mid x2 shared) -> device under test; plus instances that must stay untouched"""
    ports = PRIM_PORTS[req["prim"]]
    mid = h.Module(name=f"Mid{tag}")
    for p in ports:
        mid.add(h.Port(name="t_" + p))
    mid.vss = h.Port()
    mid.add(make_prim_call(h, req)(**{p: mid.get("t_" + p) for p in ports}), name="dut")
    mid.add(make_prim_call(h, req)(**{p: mid.get("t_" + p) for p in ports}), name="dut2")          # equal parameters: must get the same device call
    if has_mult(h, req["prim"]):
        # ... and a third that differs in its multiplier ONLY: it must keep its own
        mid.add(make_prim_call(h, dict(req, mult=5))(**{p: mid.get("t_" + p) for p in ports}), name="dut3")
    mid.add(h.primitives.IdealResistor(r=1)(p=mid.get("t_" + ports[0]), n=mid.vss), name="rkeep")
    ext = h.ExternalModule(name="KeepMe", port_list=[h.Port(name="a")], desc="untouched", domain="other")
    mid.add(ext()(a=mid.vss), name="xkeep")
    top = h.Module(name=f"Top{tag}")
    top.vss = h.Port()
    top.bus = h.Signal(width=len(ports))
    top.n1 = h.Signal()
    top.add(mid(**{"t_" + p: top.bus[k] for k, p in enumerate(ports)}, vss=top.vss), name="m0")
    top.add(mid(**{"t_" + p: (top.n1 if k == 0 else top.bus[k]) for k, p in enumerate(ports)}, vss=top.vss), name="m1")
    return top, mid


def run_case(args):
    tid, case = args
    from ..hd import h
    import hdl21.pdk as hp
    import importlib
    import vlsirtools
    info = PDKS[case["pdk"]]
    req = case["req"]
    ev = {"tid": tid, "pdk": case["pdk"], "domain": info["domain"], "mapped": info["mapped"], "table": read_tables(case["pdk"]), "raised": False,
          "exc_type": "", "exc_len": 0, "exc": "", "P0": EMPTYF, "P1": EMPTYF, "P2": EMPTYF, "W1": EMPTYW, "spice_ok": True, "spectre_ok": True, "reqs": {}, "sizes": {}}
    r = {"prim": req["prim"], "ports": PRIM_PORTS[req["prim"]], "by": req["by"], "model": req["model"], "tp": req["tp"], "fam": req["fam"], "vth": req["vth"]}
    tag = str(tid)
    ev["reqs"] = {f"Mid{tag}.dut": r, f"Mid{tag}.dut2": r}
    if has_mult(h, req["prim"]):
        ev["reqs"][f"Mid{tag}.dut3"] = r
    try:
        pm = importlib.import_module(info["module"])
        a, _ = build_design(h, req, tag)
        ev["P0"] = strip_names(proj_full(h.to_proto(a)), tag)
        if case.get("pre"):
            try:
                pre, _ = build_design(h, req, tag + "p")
                importlib.import_module(PDKS[case["pre"]]["module"]).compile(pre)
            except Exception:
                pass
        if case.get("pre_same"):
            try:
                pre, _ = build_design(h, dict(req, by="params", model="", fam="NONE"), tag + "q")
                pm.compile(pre)
            except Exception:
                pass
        b, bmid = build_design(h, req, tag)
        if case.get("census"):
            class Census(h.HierarchyWalker):
                def __init__(self):
                    super().__init__()
                    self.count = 0

                def visit_instance(self, inst):
                    self.count += 1
                    return super().visit_instance(inst)
            Census().walk(b)
        decoy = None
        if case.get("shadow"):
            decoy, dmid = build_design(h, dict(req, sized="wl" if req["sized"] != "wl" else ""), tag + "d")
            dmid.name = bmid.name          # another module of the same name, reached first in the same compile call
        def do_compile():
            how = case["how"]
            if decoy is not None:
                pm.compile([decoy, b])
            elif how == "direct":
                pm.compile(b)
            elif how == "default":
                hp.set_default(pm)
                hp.compile(b)
            elif how == "name":
                hp.compile(b, pdk=pm.__name__)
            else:
                hp.compile(b, pdk=pm)
        try:
            do_compile()
        except Exception as ex:
            # a refused request is refused again when the very same design is compiled once more, the same way (what the first attempt left behind -
            # devices already replaced, modules already seen - may not turn the refusal into a silent success); if the second attempt returns, it is
            # judged as a return
            again = True
            try:
                do_compile()
                again = False
            except Exception:
                pass
            if again:
                ev["raised"] = True
                ev["exc_type"] = type(ex).__name__
                ev["exc_len"] = len(str(ex).strip())
                ev["exc"] = str(ex).strip()[-200:]
                ev["reqs"] = fix_keys(ev["reqs"], tag)
                return ev
            ev["retry_returned"] = True
        pkg1 = h.to_proto(b)
        ev["P1"] = strip_names(proj_full(pkg1), tag)
        w = proj_package(pkg1, None)
        w["top"] = w["order"][-1]
        ev["W1"] = w
        pmid = next(m for m in pkg1.modules if m.name.split(".")[-1] == f"Mid{tag}")
        for iname in ("dut", "dut2", "dut3"):
            if iname not in bmid.instances:
                continue
            pinst = next(i for i in pmid.instances if i.name == iname)
            ev["sizes"][f"Mid.{iname}"] = size_record(case["pdk"], req if iname != "dut3" else dict(req, mult=5), bmid.instances[iname], pinst)
        for fmt, key in (("spice", "spice_ok"), ("spectre", "spectre_ok")):
            try:
                vlsirtools.netlist(pkg=pkg1, dest=io.StringIO(), fmt=fmt)
            except Exception as ex:
                ev[key] = False
                ev["exc"] += f" {fmt}: {type(ex).__name__}: {str(ex)[:120]}"
        pm.compile(b)
        ev["P2"] = strip_names(proj_full(h.to_proto(b)), tag)
    except Exception as ex:
        ev["raised"] = True
        ev["exc_type"] = "harness:" + type(ex).__name__
        ev["exc_len"] = 1
        ev["exc"] = f"{type(ex).__name__}: {str(ex)[-200:]}"
    ev["reqs"] = fix_keys(ev["reqs"], tag)
    return ev


def strip_names(P, tag):
    """module names carry the case number and the Python module path; keep the last component without the number"""
    def short(n):
        n = n.split(".")[-1]
        return n[: -len(tag)] if n.endswith(tag) else n
    for m in P["mods"]:
        m["name"] = short(m["name"])
        for i in m["insts"]:
            if i["ref"][0] == "local":
                i["ref"][2] = short(i["ref"][2])
    return P


def fix_keys(reqs, tag):
    return {k.replace("Mid" + tag, "Mid"): v for k, v in reqs.items()}


# ------------------------------------------------------------------------------------------------ logic cells
def run_cells(args):
    lib, names = args
    from ..hd import h
    import importlib
    import vlsirtools
    out = []
    mod = importlib.import_module(lib)
    for n in names:
        em = getattr(mod, n)
        res = {"cell": f"{lib}.{n}", "ok": True, "why": ""}
        try:
            m = h.Module(name="CellTb")
            conns = {}
            for p in em.port_list:
                conns[p.name] = m.add(h.Signal(name="s_" + p.name.replace("[", "_").replace("]", "_"), width=p.width))
            m.add(em()(**conns), name="u")
            pkg = h.to_proto(m)
            for fmt in ("spice", "spectre"):
                vlsirtools.netlist(pkg=pkg, dest=io.StringIO(), fmt=fmt)
            pi = pkg.modules[-1].instances[0]
            if sorted(c.portname for c in pi.connections) != sorted(p.name for p in em.port_list):
                res.update(ok=False, why="ports not connected exactly once")
        except Exception as ex:
            res.update(ok=False, why=f"{type(ex).__name__}: {str(ex)[:150]}")
        out.append(res)
    return out


def cell_libs():
    import importlib
    libs = []
    for pkgname in ("sky130_hdl21.digital_cells", "gf180_hdl21.digital_cells"):
        try:
            pkg = importlib.import_module(pkgname)
        except Exception:
            continue
        import pkgutil
        for mi in pkgutil.iter_modules(pkg.__path__):
            libs.append(f"{pkgname}.{mi.name}")
    return libs


def run(tier, seed, replay_file=None):
    o = Outcome(PID, tier, seed)
    o.rule = ("registry: every history of 3 operations over 3 stand-in PDK modules and of 4 operations over 2 (thorough: 4 over 3) (TLC, exhaustive), each in a fresh process; devices: every entry of every "
              "device table of Sky130 / GF180 requested by model name through each generic primitive of its kind, every MOS (type, family, threshold) triple "
              "for all four PDKs (quick: seeded sample of the triples), sizes given / defaulted, compiled directly / by default / by name / by module; a seeded "
              "sample of the logic-cell libraries. Non-trivial = a technology-mapped instance present; distinct by case.")
    o.trusted_base = ["harness/props/c15.py (normalisation of the PDK tables, design builder, projections)", "TLC", "vlsirtools netlisters as acceptance oracle"]
    rnd = random.Random(seed)
    from ..hd import h  # noqa: F401
    # (a)
    hists = []
    for cfg, what in ([("mc/MC_Pdk.cfg", "3 PDK modules, Depth 3"), ("mc/MC_Pdk_2x4.cfg", "2 PDK modules, Depth 4")] if tier == "quick" else
                      [("mc/MC_Pdk_3x4.cfg", "3 PDK modules, Depth 4")]):
        r = tlc.must_ok(tlc.run("mc/MC_Pdk.tla", cfg, workers=4, tag="c15mc"), cfg)
        o.add_mc("MC_Pdk", r, what)
        hists += r.cases
    import multiprocessing as mp
    ctx = mp.get_context("fork")
    with ctx.Pool(NPROC, maxtasksperchild=1) as pool:
        rtraces = pool.map(replay_registry, list(enumerate(hists)), chunksize=1)
    files = tlc.split_batches(rtraces, WORK / "c15", f"reg-{tier}", NPROC)
    res = tlc.validate_batches("trace/Trace_PdkReg.tla", "trace/Trace_PdkReg.cfg", files, jobs=NPROC, tag="c15reg")
    v0 = {}
    for rr in res:
        o.transitions += rr.generated
        o.states += rr.distinct
        for tid, ok, clause in rr.verdicts:
            v0[tid] = (ok, clause)
    if len(v0) != len(hists):
        raise tlc.TlcError(f"C15: {len(hists)} registry histories, {len(v0)} verdicts")
    for i, hist in enumerate(hists):
        ok, clause = v0[i]
        if not ok:
            hows = sorted({f"compile_by_{x['how']}" for x in hist if x["op"] == "compile"})
            o.violations.append(Violation(clause="registry:" + clause.split("@")[0], case={"history": hist}, features=hows, detail=rtraces[i]))
    o.cover["registry_histories"] = len(hists)
    # (b, c)
    if replay_file:
        cases = [json.loads(Path(replay_file).read_text())["case"]]
    else:
        cases = gen_cases(tier, seed)
    evs = pool_map(run_case, list(enumerate(cases)), chunksize=8)
    files = tlc.split_batches([[e] for e in evs], WORK / "c15", f"dev-{tier}", NPROC)
    res = tlc.validate_batches("trace/Trace_Pdk.tla", "trace/Trace_Pdk.cfg", files, jobs=NPROC, tag="c15dev")
    v1 = {}
    for rr in res:
        o.transitions += rr.generated
        for tid, ok, clause in rr.verdicts:
            v1[tid] = (ok, clause)
    if len(v1) != len(cases):
        raise tlc.TlcError(f"C15: {len(cases)} device cases, {len(v1)} verdicts")
    nt = 0
    for i, c in enumerate(cases):
        ok, clause = v1[i]
        k = f"{c['pdk']}_{c['req']['by']}"
        o.cover[k] = o.cover.get(k, 0) + 1
        o.cover["how_" + c["how"]] = o.cover.get("how_" + c["how"], 0) + 1
        o.cover["compiled" if not evs[i]["raised"] else "refused"] = o.cover.get("compiled" if not evs[i]["raised"] else "refused", 0) + 1
        nt += 0 if evs[i]["raised"] else 1
        if not ok:
            feats = ["pdk_" + c["pdk"], "by_" + c["req"]["by"], "prim_" + c["req"]["prim"], "how_" + c["how"]]
            if c["req"]["by"] == "model":
                ents = [e for e in evs[i]["table"] if e["key"] == c["req"]["model"]]
                if ents and all(e["ports"] != PRIM_PORTS[c["req"]["prim"]] for e in ents):
                    feats.append("device_terminals_differ_from_generic_primitive")
                feats.append(f"combo:{c['pdk']}:{c['req']['prim']}:{c['req']['model']}")
            o.violations.append(Violation(clause=clause.split(":")[0], case=c, features=feats, detail={"clause": clause, "exc": evs[i]["exc"], "exc_type": evs[i]["exc_type"]}))
    # logic cells
    libs = cell_libs()
    jobs = []
    total_cells = 0
    for lib in libs:
        import importlib
        from hdl21 import ExternalModule
        mod = importlib.import_module(lib)
        names = sorted(n for n in dir(mod) if isinstance(getattr(mod, n), ExternalModule))
        total_cells += len(names)
        if tier == "quick":
            names = rnd.sample(names, min(40, len(names)))
        for k in range(0, len(names), 50):
            jobs.append((lib, names[k:k + 50]))
    cres = [x for out in pool_map(run_cells, jobs) for x in out]
    o.cover["logic_cells_checked"] = len(cres)
    o.extra["logic_cells_total"] = total_cells
    for x in cres:
        if not x["ok"]:
            o.violations.append(Violation(clause="logic_cell", case=x, features=["logic_cell"], detail=x["why"]))
    if tier == "thorough" and not replay_file:
        from .. import apalache
        o.extra["apalache"] = [apalache.inductive("PdkInd", None, "NoError")]      # the registry invariant, for any number of operations
    o.traces = len(hists) + len(cases)
    o.evaluations = sum(len(t) for t in rtraces) + len(cases) + len(cres)
    o.distinct_nontrivial = nt
    o.required_cover = ["registry_histories", "sample_params", "sky130_model", "sky130_params", "gf180_model", "gf180_params", "asap7_params", "how_direct", "how_default",
                        "how_name", "how_module", "compiled", "refused", "logic_cells_checked"]
    for i in rnd.sample(range(len(cases)), 2):
        o.samples.append({"case": cases[i], "raised": evs[i]["raised"], "exc": evs[i]["exc"][:120], "verdict": v1[i]})
    return o
