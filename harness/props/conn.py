"""Shared runner for the connectivity oracle (Trace_Conn): build an abstract design with the real library, export it,
project the package, let TLC classify the design (Valid!Status) and compare the two denotations."""
import io
import json
from pathlib import Path

from .. import tlc
from ..common import WORK, NPROC, pool_map
from ..design import build, proj_package

EMPTY_P = {"mods": {}, "order": [], "leaves": {}, "exts": [], "top": ""}


def run_design(args):
    tid, fam, D, style, entries = args
    from ..hd import h
    ev = {"tid": tid, "fam": fam, "D": D, "style": style, "raised": False, "accepted": [], "P": EMPTY_P, "exc": ""}
    top = None
    try:
        top = build(h, D, style)
        pkg = h.to_proto(top)
        ev["P"] = proj_package(pkg, D["top"])
        ev["accepted"].append("to_proto")
    except Exception as ex:
        ev["raised"] = True
        ev["exc"] = f"{type(ex).__name__}: {str(ex).strip().splitlines()[-1][:200] if str(ex).strip() else ''}"
        # repeated attempts on the SAME objects: a faulty design must keep being refused
        if entries and top is not None:
            for name in ("to_proto", "netlist", "elaborate", "to_proto"):
                try:
                    if name == "netlist":
                        h.netlist(top, io.StringIO(), fmt="spice")
                    elif name == "elaborate":
                        h.elaborate(top)
                    else:
                        h.to_proto(top)
                    ev["accepted"].append("retry_" + name)
                    break
                except Exception:
                    pass
        # the other entry points, each on a fresh copy of the design (only needed to decide fault rejection)
        for name in entries:
            try:
                top = build(h, D, style)
                if name == "netlist":
                    h.netlist(top, io.StringIO(), fmt="spice")
                elif name == "elaborate":
                    h.elaborate(top)
                ev["accepted"].append(name)
            except Exception:
                pass
    return ev


def validate(evs, tag, nbatch=NPROC, timeout=3600):
    files = tlc.split_batches([[e] for e in evs], WORK / tag, "tr", nbatch)
    res = tlc.validate_batches("trace/Trace_Conn.tla", "trace/Trace_Conn.cfg", files, jobs=NPROC, tag=tag, timeout=timeout)
    verdicts = {}
    gen = 0
    for r in res:
        gen += r.generated
        validate.distinct += r.distinct
        for tid, ok, clause in r.verdicts:
            verdicts[tid] = (ok, clause)
    if len(verdicts) != len(evs):
        raise tlc.TlcError(f"{tag}: {len(evs)} designs, {len(verdicts)} verdicts")
    return verdicts, gen


validate.distinct = 0


def run_designs(designs, tag, styles=("proc",), entries=("netlist", "elaborate")):
    jobs = []
    for fam, D in designs:
        for st in styles:
            jobs.append((len(jobs), fam, D, st, entries))
    evs = pool_map(run_design, jobs, chunksize=32)
    verdicts, gen = validate(evs, tag)
    return jobs, evs, verdicts, gen
