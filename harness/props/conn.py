"""Shared runner for the connectivity oracle (Trace_Conn): build an abstract design with the real library, export it,
project the package, let TLC classify the design (Valid!Status) and compare the two denotations."""
import io
import json
from pathlib import Path

from .. import tlc
from ..common import WORK, NPROC, pool_map
from ..design import build, proj_package

EMPTY_P = {"mods": {}, "order": [], "leaves": {}, "exts": [], "top": ""}
NETLIST_EVERY = 0          # k > 0: every k-th exported design is also netlisted (spice) and the netlist read back positionally (Netlist!NetlistDiff)


def parse_spice(text):
    """A SPICE netlist as written by the vlsirtools netlister -> {"subs": {name: {"ports": [...], "insts": [{"n", "nets", "of"}]}}, "top": last sub-circuit}.
    Purely positional and lexical: instance = name line, '+' line of nets, '+' line naming what is instantiated (parameter lines follow)."""
    subs, cur, top = {}, None, ""
    lines = [ln.rstrip() for ln in text.splitlines()]
    i = 0
    while i < len(lines):
        ln = lines[i].strip()
        if ln.upper().startswith(".SUBCKT"):
            name = ln.split()[1]
            cur = {"ports": [], "insts": []}
            subs[name] = cur
            top = name
            if i + 1 < len(lines) and lines[i + 1].startswith("+"):
                cur["ports"] = lines[i + 1][1:].split()
                i += 1
        elif ln.upper().startswith(".ENDS"):
            cur = None
        elif cur is not None and ln and ln[0] not in "*+.":
            plus = []
            j = i + 1
            while j < len(lines) and (lines[j].startswith("+") or lines[j].startswith("*")):
                if lines[j].startswith("+"):
                    plus.append(lines[j][1:].split())
                j += 1
            nets = plus[0] if plus else []
            of = plus[1][0] if len(plus) > 1 and plus[1] else ""
            if nets and nets[0].startswith("*"):
                nets = []           # "+ * No ports"
            cur["insts"].append({"n": ln[1:], "nets": nets, "of": of})
            i = j - 1
        i += 1
    return {"subs": subs, "top": top}


def parse_spectre(text):
    """A Spectre-format netlist as written by the vlsirtools netlister -> the same structure as parse_spice.  Instance = name line (no type prefix),
    a '+ ( nets )' line, a '+ name-of-what-is-instantiated' line; comment lines start with '//' (also after a '+')."""
    subs, cur, top = {}, None, ""
    lines = [ln.strip() for ln in text.splitlines()]
    i = 0

    def plus_tokens(ln):
        body = ln[1:].strip()
        return None if body.startswith("//") or not body else body.split()
    while i < len(lines):
        ln = lines[i]
        if ln.startswith("subckt "):
            name = ln.split()[1]
            cur = {"ports": [], "insts": []}
            subs[name] = cur
            top = name
            if i + 1 < len(lines) and lines[i + 1].startswith("+"):
                cur["ports"] = plus_tokens(lines[i + 1]) or []
                i += 1
        elif ln.startswith("ends"):
            cur = None
        elif cur is not None and ln and not ln.startswith(("+", "//")):
            plus = []
            j = i + 1
            while j < len(lines) and (lines[j].startswith("+") or lines[j].startswith("//")):
                if lines[j].startswith("+"):
                    t = plus_tokens(lines[j])
                    if t is not None:
                        plus.append(t)
                j += 1
            nets = [x for x in plus[0] if x not in ("(", ")")] if plus and plus[0][0] == "(" else []
            rest = plus[1:] if nets or (plus and plus[0][0] == "(") else plus
            of = rest[0][0] if rest else ""
            cur["insts"].append({"n": ln.split()[0], "nets": nets, "of": of})
            i = j - 1
        i += 1
    return {"subs": subs, "top": top}


def run_design(args):
    tid, fam, D, style, entries = args
    from ..hd import h
    ev = {"tid": tid, "fam": fam, "D": D, "style": style, "raised": False, "accepted": [], "P": EMPTY_P, "exc": ""}
    top = None
    try:
        top = build(h, D, style)
        pkg = h.to_proto(top)
        ev["P"] = proj_package(pkg, D["top"])
        ev["accepted"].append("to_proto")
        if NETLIST_EVERY and tid % NETLIST_EVERY == 0:
            try:
                import vlsirtools
                buf = io.StringIO()
                vlsirtools.netlist(pkg=pkg, dest=buf, fmt="spice")
                ev["N"] = parse_spice(buf.getvalue())
                buf = io.StringIO()
                vlsirtools.netlist(pkg=pkg, dest=buf, fmt="spectre")
                ev["N2"] = parse_spectre(buf.getvalue())
            except Exception as ex:
                ev["netlist_exc"] = f"{type(ex).__name__}: {str(ex)[:120]}"
    except Exception as ex:
        ev["raised"] = True
        ev["exc"] = f"{type(ex).__name__}: {str(ex).strip().splitlines()[-1][:200] if str(ex).strip() else ''}"
        # repeated attempts on the SAME objects: a faulty design must keep being refused
        if entries and top is not None:
            for name in ("to_proto", "netlist", "elaborate", "to_proto"):
                try:
                    if name == "netlist":
                        h.netlist(top, io.StringIO(), fmt="spice")
                    elif name == "elaborate":
                        h.elaborate(top)
                    else:
                        h.to_proto(top)
                    ev["accepted"].append("retry_" + name)
                    break
                except Exception:
                    pass
        # the other entry points, each on a fresh copy of the design (only needed to decide fault rejection)
        for name in entries:
            try:
                top = build(h, D, style)
                if name == "netlist":
                    h.netlist(top, io.StringIO(), fmt="spice")
                elif name == "elaborate":
                    h.elaborate(top)
                ev["accepted"].append(name)
            except Exception:
                pass
    return ev


def validate(evs, tag, nbatch=NPROC, timeout=3600):
    files = tlc.split_batches([[e] for e in evs], WORK / tag, "tr", nbatch)
    res = tlc.validate_batches("trace/Trace_Conn.tla", "trace/Trace_Conn.cfg", files, jobs=NPROC, tag=tag, timeout=timeout)
    verdicts = {}
    gen = 0
    for r in res:
        gen += r.generated
        validate.distinct += r.distinct
        for tid, ok, clause in r.verdicts:
            verdicts[tid] = (ok, clause)
    if len(verdicts) != len(evs):
        raise tlc.TlcError(f"{tag}: {len(evs)} designs, {len(verdicts)} verdicts")
    return verdicts, gen


validate.distinct = 0


def run_designs(designs, tag, styles=("proc",), entries=("netlist", "elaborate")):
    jobs = []
    for fam, D in designs:
        for st in styles:
            jobs.append((len(jobs), fam, D, st, entries))
    evs = pool_map(run_design, jobs, chunksize=32)
    verdicts, gen = validate(evs, tag)
    return jobs, evs, verdicts, gen
