"""One 'process' of C12: run a list of design programs in this interpreter (its own PYTHONHASHSEED, its own program order, junk
allocation and unrelated elaboration in between) and print one JSON line per output: {"key": program|format, "val": digest}."""
import hashlib
import io
import json
import random
import sys

sys.path.insert(0, "/verif")


def main():
    progfile, envseed = sys.argv[1], int(sys.argv[2])
    from harness.hd import h
    from harness.design import build
    from harness import universe as U
    progs = json.load(open(progfile))
    rnd = random.Random(envseed)
    order = list(range(len(progs)))
    rnd.shuffle(order)
    junk = []
    out = []
    for k in order:
        p = progs[k]
        # unrelated allocation and unrelated elaboration before the program
        for _ in range(rnd.randint(0, 30)):
            junk.append([object() for _ in range(rnd.randint(1, 50))])
        if rnd.random() < 0.3:
            try:
                h.elaborate(build(h, U.U_pair()[rnd.randint(0, 20)][1], "proc"))
            except Exception:
                pass
        if rnd.random() < 0.5:
            junk.clear()
        try:
            top = build(h, p["D"], p["style"])
            pkg = h.to_proto(top)
            out.append({"key": f"{p['id']}|proto", "val": hashlib.sha256(pkg.SerializeToString(deterministic=True)).hexdigest()[:20]})
            for fmt in ("spice", "spectre", "verilog"):
                try:
                    s = io.StringIO()
                    h.netlist(pkg, s, fmt=fmt)
                    out.append({"key": f"{p['id']}|{fmt}", "val": hashlib.sha256(s.getvalue().encode()).hexdigest()[:20]})
                except Exception as ex:
                    out.append({"key": f"{p['id']}|{fmt}", "val": "raised:" + type(ex).__name__})
        except Exception as ex:
            out.append({"key": f"{p['id']}|proto", "val": "raised:" + type(ex).__name__})
    for o in out:
        print("OUT " + json.dumps(o))


if __name__ == "__main__":
    main()
