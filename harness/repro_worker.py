"""One 'process' of C12: run a list of design programs in this interpreter (its own PYTHONHASHSEED, its own program order, junk
allocation and unrelated elaboration in between) and print one JSON line per output: {"key": program|format, "val": digest}."""
import hashlib
import io
import json
import random
import sys

sys.path.insert(0, "/verif")


def pgen_env(h):
    """A small parameterised library: two generators sharing one parameter class (nested class, strings, un-coerced number, Prefixed, enum),
    a chain generator calling another one, and a generator taking a module as parameter."""
    from enum import Enum
    from typing import Union
    from decimal import Decimal
    from hdl21.prefix import Prefixed, Prefix
    import hdl21.primitives as prims

    class Flavor(Enum):
        A = "a"
        B = "b b"

    @h.paramclass
    class Inner:
        x = h.Param(dtype=int, desc="x", default=1)
        y = h.Param(dtype=str, desc="y", default="q")

    @h.paramclass
    class Size:
        w = h.Param(dtype=Union[int, float], desc="w")
        nf = h.Param(dtype=int, desc="nf", default=1)
        tag = h.Param(dtype=str, desc="tag", default="t")
        inner = h.Param(dtype=Inner, desc="inner", default=Inner())
        p = h.Param(dtype=h.Prefixed, desc="p", default=Prefixed(number=Decimal(1), prefix=Prefix.UNIT))
        fl = h.Param(dtype=Flavor, desc="fl", default=Flavor.A)

    @h.paramclass
    class Plain:
        a = h.Param(dtype=int, desc="a")
        s = h.Param(dtype=str, desc="s", default="x")

    @h.generator
    def Decap(p: Size) -> h.Module:
        m = h.Module()
        m.VDD, m.VSS = h.Port(), h.Port()
        m.c = prims.C(c=p.nf * h.prefix.f)(p=m.VDD, n=m.VSS)
        return m

    @h.generator
    def RcStage(p: Size) -> h.Module:
        m = h.Module()
        m.VSS, m.i, m.z = h.Port(), h.Input(), h.Output()
        m.r = prims.R(r=p.nf * h.prefix.K)(p=m.i, n=m.z)
        # (nothing in the body depends on how an equal value was written: the module made for Size(p=1000*m) is the one returned for Size(p=1*UNIT))
        m.c = prims.C(c=(p.inner.x + 1) * h.prefix.f)(p=m.z, n=m.VSS)
        return m

    @h.generator
    def Leaf(p: Plain) -> h.Module:
        m = h.Module()
        m.VSS, m.i, m.z = h.Port(), h.Input(), h.Output()
        m.r = prims.R(r=p.a * h.prefix.K)(p=m.i, n=m.z)
        return m

    @h.paramclass
    class WrapP:
        unit = h.Param(dtype=h.Instantiable, desc="unit")
        n = h.Param(dtype=int, desc="n", default=2)

    @h.generator
    def Wrap(p: WrapP) -> h.Module:
        m = h.Module()
        m.VSS, m.i, m.z = h.Port(), h.Input(), h.Output()
        prev = m.i
        for k in range(p.n):
            nxt = m.z if k == p.n - 1 else m.add(h.Signal(name=f"n{k}"))
            m.add(p.unit(i=prev, z=nxt, VSS=m.VSS), name=f"u{k}")
            prev = nxt
        return m

    def size(kw):
        kw = dict(kw)
        if "inner" in kw:
            kw["inner"] = Inner(**kw["inner"])
        if "p" in kw:
            kw["p"] = Prefixed(number=Decimal(kw["p"][0]), prefix=Prefix.from_exp(kw["p"][1]))
        if "fl" in kw:
            kw["fl"] = Flavor[kw["fl"]]
        return Size(**kw)
    @h.generator(enable_cache=False)
    def Scratch(p: Size) -> h.Module:
        m = h.Module()
        m.VDD, m.VSS = h.Port(), h.Port()
        m.c = prims.C(c=p.nf * h.prefix.f)(p=m.VDD, n=m.VSS)
        return m

    return dict(Decap=Decap, RcStage=RcStage, Leaf=Leaf, Wrap=Wrap, WrapP=WrapP, Plain=Plain, size=size, Scratch=Scratch)


def pgen_build(h, E, spec):
    """the design proper: a chain of generated stages"""
    top = h.Module(name="Buf" + spec["id"].split("#")[-1])
    top.VSS, top.i, top.z = h.Port(), h.Input(), h.Output()
    prev = top.i
    calls = spec["calls"]
    for k, c in enumerate(calls):
        if c["g"] == "RcStage":
            mod = E["RcStage"](E["size"](c["kw"]))
        elif c["g"] == "Leaf":
            mod = E["Leaf"](E["Plain"](**c["kw"]))
        else:
            mod = E["Wrap"](E["WrapP"](unit=E["Leaf"](E["Plain"](**c["kw"])), n=c["n"]))
        nxt = top.z if k == len(calls) - 1 else top.add(h.Signal(name=f"n{k}"))
        top.add(mod(i=prev, z=nxt, VSS=top.VSS), name=f"s{k}")
        prev = nxt
    return top


def pgen_earlier(h, E, spec, rnd):
    """unrelated earlier work with the same library: other generators (and, sometimes, the same one) called with equal values written differently"""
    # unrelated, short-lived work: an un-cached generator swept over parameter sets whose results (and parameter objects) are dropped at once
    if rnd.random() < 0.6:
        import gc
        for k in range(rnd.randint(5, 40)):
            try:
                E["Scratch"](E["size"]({"w": k, "nf": 1 + k % 3, "inner": {"x": k % 5}, "tag": "s" * (k % 7)}))
            except Exception:
                pass
        gc.collect()
    for c in spec["earlier"]:
        if rnd.random() < 0.5:
            try:
                g = E["Decap"] if rnd.random() < 0.6 else E["RcStage"]
                h.to_proto(g(E["size"](c)))
            except Exception:
                pass


def main():
    progfile, envseed = sys.argv[1], int(sys.argv[2])
    from harness.hd import h
    from harness.design import build
    from harness import universe as U
    progs = json.load(open(progfile))
    rnd = random.Random(envseed)
    order = list(range(len(progs)))
    rnd.shuffle(order)
    junk = []
    out = []
    E = pgen_env(h)
    for k in order:
        p = progs[k]
        # unrelated allocation and unrelated elaboration before the program
        for _ in range(rnd.randint(0, 30)):
            junk.append([object() for _ in range(rnd.randint(1, 50))])
        if rnd.random() < 0.3:
            try:
                h.elaborate(build(h, U.U_pair()[rnd.randint(0, 20)][1], "proc"))
            except Exception:
                pass
        if rnd.random() < 0.3:
            # ... including designs in which the elaborator's generated names collide with the designer's (and get underscores appended)
            try:
                from harness.props import c05
                pats = c05.base_patterns()
                pat, D0, inv_s, inv_i = pats[rnd.randint(0, len(pats) - 1)]
                rl = list(c05.relabel(pat, D0, inv_s, inv_i))
                h.elaborate(build(h, rl[rnd.randint(0, len(rl) - 1)]["D"], "proc"))
            except Exception:
                pass
        if rnd.random() < 0.5:
            junk.clear()
        try:
            if p.get("kind") == "pgen":
                pgen_earlier(h, E, p, rnd)
                top = pgen_build(h, E, p)
            else:
                top = build(h, p["D"], p["style"])
            if p.get("kind") == "wrap":
                top = h.generators.Wrapper(top)
            if p.get("kind") == "flat":
                from hdl21.flatten import flatten
                top = flatten(top)
            pkg = h.to_proto(top)
            out.append({"key": f"{p['id']}|proto", "val": hashlib.sha256(pkg.SerializeToString(deterministic=True)).hexdigest()[:20]})
            for fmt in ("spice", "spectre", "verilog"):
                try:
                    s = io.StringIO()
                    h.netlist(pkg, s, fmt=fmt)
                    out.append({"key": f"{p['id']}|{fmt}", "val": hashlib.sha256(s.getvalue().encode()).hexdigest()[:20]})
                except Exception as ex:
                    out.append({"key": f"{p['id']}|{fmt}", "val": "raised:" + type(ex).__name__})
        except Exception as ex:
            out.append({"key": f"{p['id']}|proto", "val": "raised:" + type(ex).__name__})
    for o in out:
        print("OUT " + json.dumps(o))


if __name__ == "__main__":
    main()
