"""Import hdl21 from /repo's working tree with the verification hooks enabled."""
import os
import sys

os.environ.setdefault("HDL21_VERIF", "1")
os.environ.setdefault("PYTHONHASHSEED", "0")
for p in ("/repo/pdks/Sky130", "/repo/pdks/Gf180", "/repo/pdks/Asap7"):
    if p not in sys.path:
        sys.path.append(p)
if "/repo" not in sys.path:
    sys.path.insert(0, "/repo")

import hdl21 as h  # noqa: E402

assert os.path.realpath(h.__file__).startswith("/repo/"), f"hdl21 imported from {h.__file__}, not /repo"
