"""Import hdl21 from /repo's working tree with the verification hooks enabled.

VERIF_REPO (default /repo) lets a scratch git worktree of the repository stand in for /repo, so that a seeded change can be
evaluated without touching /repo while another run is reading it.  Every registered command runs with it unset.
"""
import os
import sys

REPO = os.path.realpath(os.environ.get("VERIF_REPO", "/repo"))
os.environ.setdefault("HDL21_VERIF", "1")
os.environ.setdefault("PYTHONHASHSEED", "0")
for p in ("pdks/Sky130", "pdks/Gf180", "pdks/Asap7"):
    p = os.path.join(REPO, p)
    if REPO != "/repo":
        if p not in sys.path:
            sys.path.insert(0, p)
    elif p not in sys.path:
        sys.path.append(p)
if sys.path[0] != REPO:
    sys.path.insert(0, REPO)

import hdl21 as h  # noqa: E402

assert os.path.realpath(h.__file__).startswith(REPO + "/"), f"hdl21 imported from {h.__file__}, not {REPO}"
