"""Concrete module DAGs for the ElabSched shapes, the elaboration-hook sink, and the fork-per-history runner (C07, C08)."""
import hashlib
import io
import itertools

from . import universe as U
from .design import I, R, Sig, Slc, Cat, Pref, Nc, Bund, Bref, Anon, Builder
from .passlist import cache_owner

SHAPES = {
    "chain": {"A": ["B"], "B": ["C"], "C": [], "D": [], "E": []},
    "diamond": {"A": ["B", "C"], "B": ["D"], "C": ["D"], "D": [], "E": []},
    "shared": {"A": ["C", "D"], "B": ["D", "E"], "C": ["E"], "D": ["E"], "E": []},
    "twice": {"A": ["B", "B", "C"], "B": ["C"], "C": [], "D": ["A", "C"], "E": []},
}


def shape_design(shape, top="A"):
    """Every module has a scalar port p and a bundle-valued port bp (B1); children get p by port reference chains and the
    bundle port by bundle instance / anonymous bundle; childless modules hold an external leaf, an array and a Pair."""
    ch = SHAPES[shape]
    mods = {}
    plain = {"E"} | ({"C"} if shape in ("chain", "twice") else set())      # modules WITHOUT any bundle: only scalar ports
    for name, kids in ch.items():
        sigs = [U.sig("p", 1, True), U.sig("n", 1), U.sig("w2", 2)]
        bundles = [] if name in plain else [U.bnd("bp", "B1", port=True), U.bnd("ib", "B1")]
        if name in plain:
            sigs.append(U.sig("q", 2, True))
        insts = []
        for k, c in enumerate(kids):
            pconn = Sig("p") if k == 0 else Pref("i0", "p")
            if c in plain:
                second = Sig("w2") if name in plain else (Bref("bp", "y") if k == 0 else Bref("ib", "y"))
                insts.append(U.inst(f"i{k}", c, [("p", pconn), ("q", second)]))
            else:
                bconn = Bund("bp") if k == 0 else (Bund("ib") if k == 1 else Anon(x=Sig("n"), y=Sig("w2")))
                insts.append(U.inst(f"i{k}", c, [("p", pconn), ("bp", bconn)]))
        if not kids:
            b = Sig("q") if name in plain else Bref("bp", "y")
            x = Slc(Sig("q"), I(0)) if name in plain else Bref("bp", "x")
            insts.append(U.inst("l", "L12", [("a", Sig("p")), ("b", b)], k="ext"))
            insts.append(U.inst("arr", "L1", [("a", Cat(Sig("n"), x))], kind="array", arr=2, k="ext"))
        if name not in plain:
            insts += U.bprobes("ib", U.B1_LEAVES)
        mods[name] = U.mod(sigs, insts, bundles)
    return U.design(mods, top=top, bundles={"B1": U.B1})


class Sink:
    def __init__(self, pass_names):
        self.events = []
        self.pos = {n: k + 1 for k, n in reversed(list(enumerate(pass_names)))}

    def __call__(self, ev, f):
        if ev == "export":
            return
        p = f["elabpass"]
        cls = type(p)
        cache = p.CLASS_LEVEL_CACHE
        self.events.append({"ev": ev, "pos": self.pos.get(cls.__name__, 0), "cache": cache_owner(cls), "mod": f["module"].name or "",
                            "ndone": len(cache.done), "pending": sorted(m.name or "" for m in cache.pending),
                            "elab": getattr(f["module"], "_elaborated", None) is not None})


def digest(pkg):
    return hashlib.sha256(pkg.SerializeToString(deterministic=True)).hexdigest()[:24]


LAST = {"full": "", "lines": 0}        # the complete message of the last exception do_call saw (digest, number of lines)


def do_call(h, kind, tops):
    """returns (raised, digest-or-'', exception signature)"""
    try:
        if kind == "elaborate":
            h.elaborate(tops if len(tops) > 1 else tops[0])
            return False, "", ""
        if kind == "netlist":
            s = io.StringIO()
            h.netlist(tops if len(tops) > 1 else tops[0], s, fmt="spice")
            return False, hashlib.sha256(s.getvalue().encode()).hexdigest()[:24], ""
        pkg = h.to_proto(tops if len(tops) > 1 else tops[0])
        return False, digest(pkg), ""
    except Exception as ex:
        msg = str(ex).strip().splitlines()[-1] if str(ex).strip() else ""
        LAST["full"] = hashlib.sha256((type(ex).__name__ + ": " + str(ex)).encode()).hexdigest()[:16]
        LAST["lines"] = len(str(ex).strip().splitlines())
        return True, "", f"{type(ex).__name__}: {msg[:160]}"
