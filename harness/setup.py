"""./check --setup : verify the toolchain that is already on disk and pre-parse all specs. Nothing is fetched."""
import subprocess
import sys
from pathlib import Path

from . import tlc


def main():
    ok = True
    p = subprocess.run(["java", "-version"], capture_output=True, text=True)
    print("java:", (p.stderr or p.stdout).splitlines()[0] if p.returncode == 0 else "MISSING")
    ok &= p.returncode == 0
    ok &= Path(tlc.JAR).exists() and Path(tlc.DEPS).exists()
    try:
        from .hd import h
        print("hdl21 from", h.__file__)
        import hypothesis  # noqa: F401
    except Exception as ex:  # pragma: no cover
        print("python environment problem:", ex)
        ok = False
    (tlc.WORK).mkdir(exist_ok=True)
    bad = []
    for f in sorted(tlc.SPEC.rglob("*.tla")):
        if not tlc.sany(f):
            bad.append(str(f))
    print(f"specs parsed: {len(list(tlc.SPEC.rglob('*.tla'))) - len(bad)} ok, {len(bad)} failed {bad}")
    ok &= not bad
    return 0 if ok else 2
