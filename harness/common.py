"""Shared orchestration: outcomes, known findings, replays, evidence, exit codes."""
import json
import os
import re
import sys
import time
from dataclasses import dataclass, field
from pathlib import Path
from typing import Any, Callable, Dict, List, Optional

VERIF = Path(__file__).resolve().parent.parent
WORK = VERIF / ".work"
EVID = VERIF / "evidence"
REPLAYS = VERIF / "replays"
KNOWN = VERIF / "known_findings.json"

NPROC = min(16, os.cpu_count() or 1)


@dataclass
class Violation:
    clause: str                 # failing clause named by TLC (or the MC invariant)
    case: Any                   # the abstract case (inputs / history) that fails
    features: List[str] = field(default_factory=list)   # declarative features of the case (for finding signatures)
    detail: Any = None          # recorded events / observation


@dataclass
class Outcome:
    pid: str
    tier: str
    seed: int
    level: str = "model_checking"
    states: int = 0
    transitions: int = 0
    traces: int = 0             # traces validated against the implementation (VERDICT lines)
    evaluations: int = 0
    distinct_nontrivial: int = 0
    rule: str = ""
    samples: List[Any] = field(default_factory=list)
    cover: Dict[str, int] = field(default_factory=dict)
    mc_runs: List[dict] = field(default_factory=list)
    violations: List[Violation] = field(default_factory=list)
    assumptions: List[str] = field(default_factory=list)
    trusted_base: List[str] = field(default_factory=list)
    extra: Dict[str, Any] = field(default_factory=dict)
    exhaustive: bool = False
    required_cover: List[str] = field(default_factory=list)   # action classes that must have been exercised
    t0: float = field(default_factory=time.time)

    def add_mc(self, name: str, res, constants: str = ""):
        self.states += res.distinct
        self.transitions += res.generated
        self.mc_runs.append({"spec": name, "constants": constants, "distinct_states": res.distinct,
                             "states_generated": res.generated, "depth": res.depth, "wall_s": round(res.wall_s, 2)})

    def add_cover(self, cover: Dict[str, int]):
        for k, v in cover.items():
            self.cover[k] = self.cover.get(k, 0) + v


def load_known() -> dict:
    if KNOWN.exists():
        return json.loads(KNOWN.read_text())
    return {"findings": [], "fixed": []}


def match_finding(v: Violation, pid: str, known: dict) -> Optional[dict]:
    """A violation is attributed to a listed finding only if the finding's property, clause pattern and
    every required feature of the failing case match, and no forbidden feature is present."""
    for f in known.get("findings", []):
        if f["property"] != pid:
            continue
        sig = f["signature"]
        if not re.fullmatch(sig.get("clause", ".*"), v.clause):
            continue
        feats = set(v.features)
        if not set(sig.get("features", [])) <= feats:
            continue
        if feats & set(sig.get("forbid", [])):
            continue
        anyof = sig.get("any_of")
        if anyof and not (feats & set(anyof)):
            continue
        return f
    return None


def finish(o: Outcome) -> int:
    """Classify violations against known findings, write replays + evidence, print the interface lines."""
    known = load_known()
    REPLAYS.mkdir(exist_ok=True)
    EVID.mkdir(exist_ok=True)
    for old in REPLAYS.glob(f"{o.pid}-{o.tier}-*.json"):
        old.unlink()
    unknown: List[Violation] = []
    matched: Dict[str, int] = {}
    fdesc: Dict[str, dict] = {}
    for v in o.violations:
        f = match_finding(v, o.pid, known)
        if f is None:
            unknown.append(v)
        else:
            matched[f["id"]] = matched.get(f["id"], 0) + 1
            fdesc[f["id"]] = f
    # vacuity: required action classes
    missing = [c for c in o.required_cover if o.cover.get(c, 0) == 0]
    rc = 0
    for fid, n in sorted(matched.items()):
        print(f"KNOWN-FINDING: property={o.pid} {fid}: {fdesc[fid]['what']} ({n} failing cases this run)")
    seen = set()
    k = 0
    for v in unknown:
        key = (v.clause.split("@")[0], tuple(sorted(v.features)))
        if key in seen and k >= 5:
            continue
        seen.add(key)
        if k < 20:
            path = REPLAYS / f"{o.pid}-{o.tier}-{k}.json"
            path.write_text(json.dumps({"property": o.pid, "seed": o.seed, "tier": o.tier, "clause": v.clause,
                                        "features": v.features, "case": v.case, "detail": v.detail}, indent=1, default=str))
            print(f"VIOLATION property={o.pid} replay={path}")
            print(f"  clause={v.clause} features={v.features}")
        k += 1
        rc = 1
    if missing and rc == 0:
        print(f"MACHINERY: property={o.pid} required action classes never exercised: {missing}", file=sys.stderr)
        rc = 2
    cov: Dict[str, Any] = {
        "states": o.states, "transitions": o.transitions,
        "traces_validated_against_impl": o.traces,
        "evaluations": o.evaluations or o.traces, "distinct_nontrivial": o.distinct_nontrivial,
        "rule": o.rule, "samples": o.samples[:6] or ["(none)"],
        "exhaustive": o.exhaustive, "mc_runs": o.mc_runs, "action_cover": o.cover,
        "trusted_base": o.trusted_base,
        "known_findings_reobserved": matched,
        "unlisted_violations": len(unknown),
    }
    cov.update(o.extra)
    ev = {"property_id": o.pid, "tier": o.tier, "seed": o.seed, "level": o.level, "coverage": cov,
          "assumptions": o.assumptions, "wall_s": round(time.time() - o.t0, 2), "violations": len(unknown)}
    (EVID / f"{o.pid}.json").write_text(json.dumps(ev, indent=1, default=str))
    print(f"{o.pid} tier={o.tier} seed={o.seed}: states={o.states} transitions={o.transitions} traces={o.traces} "
          f"violations={len(unknown)} known={sum(matched.values())} wall={ev['wall_s']}s")
    return rc


def chunks(seq: List[Any], n: int) -> List[List[Any]]:
    n = max(1, n)
    per = (len(seq) + n - 1) // n
    return [seq[i:i + per] for i in range(0, len(seq), per)] if seq else []


def pool_map(fn: Callable, items: List[Any], jobs: int = NPROC, chunksize: int = 1) -> List[Any]:
    """Fork-based pool map (workers inherit the imported hdl21)."""
    import multiprocessing as mp
    if len(items) <= 1 or jobs <= 1:
        return [fn(x) for x in items]
    ctx = mp.get_context("fork")
    with ctx.Pool(min(jobs, len(items))) as p:
        return p.map(fn, items, chunksize)
