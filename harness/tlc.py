"""Run TLC (model-check / simulate / trace-validate) and parse what it prints.

Everything a verdict depends on is decided by TLC; this module only launches it and reads
 * the statistics line  ("N states generated, M distinct states found")
 * lines printed by the specs through PrintT:  <<"VERDICT", tid, ok, clause>>,  <<"CASE", "json">>,
   <<"COVER", name, count>>
Exit status 2 of ./check is reserved for failures of *this* machinery (TlcError).
"""
import json
import os
import re
import shutil
import subprocess
import time
from concurrent.futures import ThreadPoolExecutor
from dataclasses import dataclass, field
from pathlib import Path
from typing import Dict, List, Optional, Sequence

VERIF = Path(__file__).resolve().parent.parent
SPEC = VERIF / "spec"
WORK = VERIF / ".work"
JAR = "/opt/veriftools/tla/tla2tools.jar"
DEPS = "/opt/veriftools/tla/CommunityModules-deps.jar"
LIBDIRS = [SPEC / d for d in ("lib", "core", "sched", "api", "mc", "trace")]


class TlcError(RuntimeError):
    """Machinery failure (not a property violation)."""


@dataclass
class TlcResult:
    rc: int
    out: str
    wall_s: float
    generated: int = 0
    distinct: int = 0
    depth: int = 0
    verdicts: List[tuple] = field(default_factory=list)   # (tid:int, ok:bool, clause:str)
    cases: List[object] = field(default_factory=list)     # parsed JSON of CASE lines
    cover: Dict[str, int] = field(default_factory=dict)
    invariant_violated: Optional[str] = None
    error: bool = False


_STATS = re.compile(r"^(\d+) states generated, (\d+) distinct states found", re.M)
_DEPTH = re.compile(r"The depth of the complete state graph search is (\d+)")
_VERDICT = re.compile(r'^<<"VERDICT", (-?\d+), (TRUE|FALSE), "((?:[^"\\]|\\.)*)">>', re.M)
_CASE = re.compile(r'^<<"CASE", "((?:[^"\\]|\\.)*)">>', re.M)
_COVER = re.compile(r'^<<"COVER", "([^"]*)", (-?\d+)>>', re.M)
_INV = re.compile(r"Error: Invariant (\S+) is violated")
_APROP = re.compile(r"Error: Action property (\S+) is violated")


def _unescape(s: str) -> str:
    # TLC prints strings with \" and \\ escaped
    return s.replace('\\"', '"').replace("\\\\", "\\")


def java_cmd(extra_props: Sequence[str] = ()) -> List[str]:
    lib = os.pathsep.join(str(d) for d in LIBDIRS)
    return [
        "java", "-XX:+UseParallelGC", "-XX:ParallelGCThreads=2", "-Xss256m", "-Xmx6g",
        f"-DTLA-Library={lib}", *extra_props,
        "-cp", f"{JAR}:{DEPS}", "tlc2.TLC",
    ]


_counter = [0]


def run(module: str, cfg: Optional[str] = None, *, workers: int = 1, env: Optional[dict] = None,
        simulate: Optional[str] = None, depth: Optional[int] = None, seed: Optional[int] = None,
        extra: Sequence[str] = (), timeout: Optional[float] = None, tag: str = "run",
        deadlock: bool = False, dfs: bool = False) -> TlcResult:
    """Run TLC on spec module `module` (path to .tla, absolute or relative to spec/)."""
    mod = Path(module)
    if not mod.is_absolute():
        mod = SPEC / mod
    if cfg is None:
        cfgp = mod.with_suffix(".cfg")
    else:
        cfgp = Path(cfg)
        if not cfgp.is_absolute():
            cfgp = SPEC / cfgp
    _counter[0] += 1
    meta = WORK / "meta" / f"{tag}-{os.getpid()}-{_counter[0]}-{time.time_ns() % 10**9}"
    meta.mkdir(parents=True, exist_ok=True)
    props = []
    if dfs:
        props.append("-Dtlc2.tool.queue.IStateQueue=StateDeque")
    cmd = java_cmd(props) + ["-config", str(cfgp), "-workers", str(workers), "-metadir", str(meta),
                             "-noGenerateSpecTE"]
    if not deadlock:
        cmd.append("-deadlock")  # -deadlock means: do NOT check deadlock
    if simulate is not None:
        cmd += ["-simulate", simulate]
    if depth is not None:
        cmd += ["-depth", str(depth)]
    if seed is not None:
        cmd += ["-seed", str(seed)]
    cmd += list(extra)
    cmd.append(str(mod))
    e = dict(os.environ)
    e.pop("JAVA_TOOL_OPTIONS", None)
    if env:
        e.update({k: str(v) for k, v in env.items()})
    t0 = time.time()
    # TLC's output goes to a file and is read line by line: a simulation run prints millions of CASE lines (one per candidate successor), far
    # more than fit in memory as parsed objects; identical CASE lines are the same case and are kept once, in order of first appearance.
    logf = meta / "tlc.out"
    try:
        with open(logf, "w") as fh:
            try:
                rc = subprocess.run(cmd, cwd=str(mod.parent), env=e, stdout=fh, stderr=subprocess.STDOUT, timeout=timeout).returncode
            except subprocess.TimeoutExpired:
                rc = 124
        res = TlcResult(rc=rc, out="", wall_s=time.time() - t0)
        other = []
        raw_cases = {}
        with open(logf, errors="replace") as fh:
            for line in fh:
                if line.startswith("<< "):
                    # TLC breaks a printed tuple that does not fit its line width over several lines (<< "VERDICT",\n   21,\n ... >>): put it together again
                    buf = line
                    while not buf.rstrip().endswith(">>"):
                        nxt = fh.readline()
                        if not nxt:
                            break
                        buf += nxt
                    parts = [x.strip() for x in buf.strip()[2:-2].strip().split("\n")]
                    line = "<<" + " ".join(parts) + ">>\n"
                if line.startswith('<<"CASE"'):
                    m = _CASE.match(line)
                    if m:
                        raw_cases.setdefault(m.group(1), None)
                        continue
                elif line.startswith('<<"VERDICT"'):
                    m = _VERDICT.match(line)
                    if m:
                        res.verdicts.append((int(m.group(1)), m.group(2) == "TRUE", _unescape(m.group(3))))
                        continue
                elif line.startswith('<<"COVER"'):
                    m = _COVER.match(line)
                    if m:
                        res.cover[m.group(1)] = res.cover.get(m.group(1), 0) + int(m.group(2))
                        continue
                other.append(line)
    finally:
        shutil.rmtree(meta, ignore_errors=True)
    out = res.out = "".join(other)
    del other
    m = None
    for m in _STATS.finditer(out):
        pass
    if m:
        res.generated, res.distinct = int(m.group(1)), int(m.group(2))
    m = _DEPTH.search(out)
    if m:
        res.depth = int(m.group(1))
    for c in raw_cases:
        try:
            res.cases.append(json.loads(_unescape(c)))
        except Exception as ex:  # pragma: no cover
            raise TlcError(f"unparsable CASE line: {c[:200]} ({ex})")
    del raw_cases
    m = _INV.search(out) or _APROP.search(out)
    if m:
        res.invariant_violated = m.group(1)
    # TLC exit codes: 0 ok, 10-13 violations (assumption, deadlock, safety, liveness), >=75 errors
    res.error = rc not in (0, 10, 11, 12, 13) or ("Error:" in out and not res.invariant_violated and rc != 0)
    return res


def must_ok(res: TlcResult, what: str) -> TlcResult:
    if res.rc != 0:
        lines = res.out.strip().splitlines()
        first = [k for k, ln in enumerate(lines) if ln.startswith("Error:")]
        tail = "\n".join(lines[first[0]:first[0] + 25] + ["..."] + lines[-8:]) if first else "\n".join(lines[-40:])
        raise TlcError(f"TLC failed for {what} (rc={res.rc}):\n{tail}")
    return res


def validate_batches(module: str, cfg: str, files: Sequence[Path], *, jobs: int = 16,
                     env: Optional[dict] = None, timeout: Optional[float] = None,
                     tag: str = "val") -> List[TlcResult]:
    """Run the trace spec `module` once per batch file (env TRACE_FILE), `jobs` at a time."""
    def one(f):
        e = dict(env or {})
        e["TRACE_FILE"] = str(f)
        return must_ok(run(module, cfg, workers=1, env=e, timeout=timeout, tag=tag), f"{module} on {f}")
    with ThreadPoolExecutor(max_workers=max(1, jobs)) as ex:
        return list(ex.map(one, files))


def split_batches(events_by_tid: Sequence[List[dict]], workdir: Path, stem: str, nbatch: int) -> List[Path]:
    """Write traces (each a list of event dicts that already carry `tid`) into <= nbatch ndjson files."""
    workdir.mkdir(parents=True, exist_ok=True)
    nbatch = max(1, min(nbatch, len(events_by_tid)))
    files = []
    per = (len(events_by_tid) + nbatch - 1) // nbatch
    for b in range(nbatch):
        chunk = events_by_tid[b * per:(b + 1) * per]
        if not chunk:
            continue
        f = workdir / f"{stem}-{b}.ndjson"
        with open(f, "w") as fh:
            for tr in chunk:
                for ev in tr:
                    fh.write(json.dumps(ev, separators=(",", ":")) + "\n")
        files.append(f)
    return files


def sany(module: Path) -> bool:
    lib = os.pathsep.join(str(d) for d in LIBDIRS)
    p = subprocess.run(["java", f"-DTLA-Library={lib}", "-cp", f"{JAR}:{DEPS}", "tla2sany.SANY", str(module)],
                       cwd=str(module.parent), capture_output=True, text=True)
    return p.returncode == 0 and "Semantic errors" not in p.stdout and "***Parse Error***" not in p.stdout
