"""./check --selftest : demonstrates on the spot that the machinery detects property-breaking changes - one archived seeded change per property
(the cheaper checks) is applied to a scratch worktree of /repo (VERIF_REPO; /repo itself is not touched), its check must report a VIOLATION, and
the worktree is removed again.  Everything archived is covered by harness/tools/rerun_seeded.py (about an hour)."""
import json
import os
import re
import subprocess

PICK = ["C03-c-index-minus-w-rejected", "C05-a-flatname-single-underscore", "C06-d-external-module-cache-by-name", "C10-a-flips-reverse-role-directions",
        "C11-c-import-prefixed-normalizes", "C12-a-connected-ports-sorted-by-instance-only", "C13-c-to-scalar-regex", "C16-a-name-lookup-falls-through-scopes",
        "C17-c-shared-testbench-siminput-reused", "C19-a-series-pair-order-lost", "C08-a-failure-recorded-only-for-stack-top", "C01-e-array-slices-from-parent-ignore-step"]
WT = "/tmp/wt-selftest"


def main():
    head = subprocess.run(["git", "-C", "/repo", "rev-parse", "HEAD"], capture_output=True, text=True).stdout.strip()
    subprocess.run(["git", "-C", "/repo", "worktree", "remove", "--force", WT], capture_output=True)
    subprocess.run(["git", "-C", "/repo", "worktree", "add", "--detach", WT, head, "-q"], check=True)
    bad = 0
    try:
        for sid in PICK:
            d = f"/verif/seeded/{sid}/"
            meta = json.load(open(d + "meta.json"))
            m = re.search(r"\./check (C\d\d)", meta.get("detected_by", ""))
            pid = m.group(1) if m else meta["property"]
            patch = next((d + f for f in ("patch.rebased.diff", "patch.diff") if os.path.exists(d + f) and
                          subprocess.run(["git", "-C", WT, "apply", "--check", d + f], capture_output=True).returncode == 0), None)
            if patch is None:
                print(f"selftest {sid}: patch does not apply to HEAD - skipped")
                continue
            subprocess.run(["git", "-C", WT, "apply", patch], check=True)
            p = subprocess.run(["./check", pid, "--tier", "quick"], cwd="/verif", env=dict(os.environ, VERIF_REPO=WT), capture_output=True, text=True)
            subprocess.run(["git", "-C", WT, "checkout", "-q", "--", "."])
            ok = p.returncode == 1 and "VIOLATION property=" + pid in p.stdout
            bad += 0 if ok else 1
            print(f"selftest {sid}: ./check {pid} exit={p.returncode} -> {'detected' if ok else 'NOT DETECTED'}")
            # the evidence file now describes the run on the changed tree: re-create it from the unchanged one
            subprocess.run(["./check", pid, "--tier", "quick"], cwd="/verif", capture_output=True)
    finally:
        subprocess.run(["git", "-C", "/repo", "worktree", "remove", "--force", WT], capture_output=True)
    print("selftest:", "all detected" if not bad else f"{bad} not detected")
    return 0 if not bad else 1
